package main

import (
	"fmt"
	"go/ast"
	"go/token"
	"go/types"
	"golang.org/x/tools/go/ssa"
	"os"
	"regexp"
	"sort"
	"strconv"
	"strings"
)

// reviewed map loops: key -> reason
var c08MapLoopExceptions = ExcTable{
	"fs.(*realFS).WatchData range wasPresent:map[string]bool":                                                                                                           "watch mode only: returns the first directory entry whose presence changed; which of several changed entries is named affects only the 'file changed' trigger text, the rebuild itself re-reads everything",
	"fs.(*realFS).WatchData range watchData:map[string]fs.privateWatchData":                                                                                             "per-path effects only (paths[path] keyed by a copy of the loop key); modKey(path) reads the file system and touches no shared state",
	"fs.(*zipFS).ReadDirectory range entries:map[string]fs.EntryKind":                                                                                                   "insert keyed by the lower-cased name: collides only if one zip directory has two names differing only by case; file lookup itself is by lower-cased path in archive order; no observable difference could be produced (tried)",
	"fs.MockFS range param input:map[string]string":                                                                                                                     "test/mock file system: directory entries inserted per path; values for one key are equal in every order unless a path is both a file and a directory; the `break` ends the walk up to the root, not the map loop",
	"js_parser.(*parser).generateImportStmt range param symbols:map[string]ast.LocRef":                                                                                  "minimum by Loc.Start; logger.Loc has Start as its only field, so the stored value is determined by the compared key (commutative min)",
	"linker.(*linkerContext).addExportsForExportStar range NamedExports:map[string]js_ast.NamedExport":                                                                  "ImportsToBind[name.Ref] is keyed by the value's own Ref and stores {Ref: name.Ref, SourceIndex: otherSourceIndex}: fully determined by the key and a loop-invariant",
	"linker.(*linkerContext).computeCrossChunkDependencies range imports:map[ast.Ref]bool":                                                                              "appends into importsFromOtherChunks[chunk], which sortedCrossChunkImports sorts (by export alias, then chunks by index) before any use; exports[ref]=true is a set insert",
	"linker.(*linkerContext).mangleProps range MangledProps:map[string]ast.Ref":                                                                                         "each property name occurs once per file; merges for different names touch disjoint symbols; the merge target is fixed by the outer loop over ReachableFiles (ordered)",
	"linker.(*linkerContext).scanImportsAndExports range ImportsToBind:map[ast.Ref]graph.ImportData":                                                                    "Part.Dependencies is consumed as a set by the tree-shaking closure; MergeSymbols links each import symbol to its export (distinct keys); the only order-sensitive part of MergeContentsWith (name transfer between two pinned symbols) needs two must-not-rename import aliases of one export, which only arises under direct eval where the file is wrapped as CommonJS and imports are not bound (checked by experiment)",
	"linker.(*linkerContext).scanImportsAndExports range SymbolUses:map[ast.Ref]js_ast.SymbolUse":                                                                       "appends to Part.Dependencies, which is consumed as a set by the tree-shaking closure (markPartLiveForTreeShaking visits every dependency; liveness is a closure and does not depend on visiting order)",
	"pkg/api.(*apiHandler).broadcastBuildResult range local:map[string]string":                                                                                          "serve mode live-reload event: collected into added/removed/updated which are sorted (sort.Strings) before being sent",
	"pkg/api.(*apiHandler).broadcastBuildResult range param newHashes:map[string]string":                                                                                "serve mode live-reload event: collected into added/removed/updated which are sorted (sort.Strings) before being sent",
	"pkg/api.(*watcher).tryToFindDirtyPath range Paths:map[string]func() string":                                                                                        "watch mode deliberately scans paths in a shuffled order (Fisher-Yates right below); it decides when a rebuild starts, not what it produces",
	"pkg/api.rebuildImpl range param oldHashes:map[string]string":                                                                                                       "collects stale outputs to delete; each is removed by its own goroutine, order irrelevant (a set of os.Remove calls)",
	"pkg/api.validateDefines range local:map[string]config.DefineData":                                                                                                  "ProcessDefines turns the array into keyed lookups (identifier map, dot-defines bucketed by last part and matched by full part list); rawDefines keys are unique so bucket order cannot change which define matches",
	"pkg/cli.parseTargets range validEngines:map[string]pkg/api.EngineName":                                                                                             "engine names are mutually prefix-free, so at most one entry satisfies strings.HasPrefix(value, engine); the error list below is sorted (sort.Strings(engines))",
	"renamer.(*MinifyRenamer).AccumulateSymbolUseCounts range param symbolUses:map[ast.Ref]js_ast.SymbolUse":                                                            "adds counts into per-slot counters (atomic integer adds) and appends top-level symbols to an array that is sorted by (count, stable source index, inner index) before names are assigned",
	"renamer.(*NumberRenamer).AssignNamesByScope range param nestedScopes:map[uint32][]*js_ast.Scope":                                                                   "one goroutine per file, joined by a WaitGroup; each writes only r.names[its own sourceIndex] and reads the frozen root scope",
	"resolver.(*Resolver).Resolve range PackageAliases:map[string]string":                                                                                               "longest matching key with a strict > comparison: two matching keys of equal length are both prefixes of importPath of the same length, hence equal; argmax is unique",
	"resolver.(resolverQuery).finalizeImportsExportsResult range rewrittenFileExtensions:map[string][]string":                                                           "the keys .js/.jsx/.mjs/.cjs are mutually suffix-free, so at most one iteration passes strings.HasSuffix(base, old) and the loop breaks right after it",
	"resolver.(resolverQuery).loadAsFile range rewrittenFileExtensions:map[string][]string":                                                                             "the keys .js/.jsx/.mjs/.cjs are mutually suffix-free, so at most one iteration passes strings.HasSuffix(base, old) and the loop breaks right after it",
	"resolver.(resolverQuery).matchTSConfigPaths range Map:map[string][]resolver.TSConfigPath [assigns longestMatch,longestMatchPrefixLength,longestMatchSuffixLength]": "lexicographic maximum of (prefix length, suffix length) with strict comparisons; two matching patterns with equal lengths have equal prefix and suffix strings, i.e. are the same key (the code comment states this is done for determinism)",
	"resolver.(resolverQuery).parseTSConfigFromSource range Map:map[string][]resolver.TSConfigPath":                                                                     "filters each key's own slice in place and stores it back under the loop key; the helper only logs located warnings and lazily creates one shared tracker (idempotent)",
}

func init() {
	register(&Property{
		ID:          "C08",
		Explanation: "Decides the absence of the enumerable nondeterminism sources on paths that produce output or diagnostics (necessary conditions of byte-identical builds, not the behaviour): R1 every `range` over a map in non-test code is order-insensitive (commutative body, collect-then-sort, located-diagnostics-only) or a reviewed entry; R2 goroutines deliver results by pre-assigned index or into sorted collections, never by completion order; R3 sort comparators and hash inputs never use unstable source indices; R4 clock/random/environment reads occur only at the reviewed owner sites; R5 no multi-way select on build paths; R6 no location-less diagnostic is logged from concurrently running goroutines. R3 also decides (c) that no raw source index is stored into an integer field a comparator reads and (d) that no decision is taken on the size of the source-index table. R9 goroutine-private-slots: goroutines started in a loop store into shared slices only at elements selected by their own per-iteration parameters (interprocedural element-store summaries). R10 process-wide-state-immutable: E-GLOB. R11 range-self-mutation: no range loop over a slice-typed field stores into or appends to that field at another index inside the loop (compaction cursors recognised). R12 cache-key-coverage / R13 cache-key-unconditional: the C09/R1 analyses. R14 visited-cut-respects-lowered-minimum: a self-recursive linker walk that lowers a stored minimum returns on the visited mark only under a flag set where the minimum is lowered. NOT covered: totality of sort comparators, absolute-path independence (paths are run-time values), determinism of plugin code.",
		Run: func(p *Prog, tier string) []*RuleResult {
			return []*RuleResult{c08MapOrder(p), c08GoroutineOrder(p), c08UnstableKeys(p), c08Ambient(p), c08Select(p), c08LoggerOrder(p), c08SerializedUpdate(p), renamed(c09Frozen(p), "C08/R8 shared-ast-immutability", "linkers of different entry points run in parallel over one parsed AST: a post-parse store into AST memory that was not cloned for this link makes the output depend on scheduling (same analysis as C09/R2)"), goroutinePrivateSlots(p, "C08/R9 goroutine-private-slots"), globalSharedImmutability(p, "C08/R10 process-wide-state-immutable"), c08RangeSelfMutation(p), renamed(c09CacheKey(p), "C08/R12 cache-key-coverage", "a build in a context reuses parse results of earlier builds keyed by the parse options: an option that the key does not compare makes the output of this build depend on what an earlier build left in the cache, i.e. the same inputs and options no longer give the same bytes (same analysis as C09/R1)"), renamed(c09UnconditionalKey(p), "C08/R13 cache-key-unconditional", "every option the cache key compares is compared on every path to `equal`: a comparison made only under a condition on another option lets two different option sets share a cached AST (same analysis as C09/R1c)"), visitedCutRespectsMinimum(p, "C08/R14 visited-cut-respects-lowered-minimum")}
		},
	})
}

func c08MapOrder(p *Prog) *RuleResult {
	return mapOrderRule(p, "C08/R1 map-order", "every range over a Go map is order-insensitive, sorts what it collects, only logs located diagnostics, or is a reviewed entry", nil, 80)
}

// mentionsTSEnum: the loop, or the header of a statement that encloses it, refers to the
// cross-module TypeScript enum tables.
func mentionsTSEnum(ml *mapLoop) bool {
	if ml.fnDecl == nil {
		return false
	}
	path := []ast.Node{}
	var found []ast.Node
	ast.Inspect(ml.fnDecl, func(n ast.Node) bool {
		if n == nil {
			path = path[:len(path)-1]
			return false
		}
		path = append(path, n)
		if n == ast.Node(ml.rng) {
			found = append([]ast.Node{}, path...)
		}
		return true
	})
	has := func(n ast.Node) bool {
		if n == nil {
			return false
		}
		ok := false
		ast.Inspect(n, func(x ast.Node) bool {
			if id, isId := x.(*ast.Ident); isId && strings.Contains(id.Name, "TSEnum") {
				ok = true
			}
			return !ok
		})
		return ok
	}
	if has(ml.rng) {
		return true
	}
	for _, n := range found {
		switch x := n.(type) {
		case *ast.IfStmt:
			if (x.Init != nil && has(x.Init)) || has(x.Cond) {
				return true
			}
		case *ast.RangeStmt:
			if x != ml.rng && has(x.X) {
				return true
			}
		}
	}
	return false
}

func mapOrderRule(p *Prog, name, doc string, filter func(*mapLoop) bool, floor int) *RuleResult {
	r := NewRule(name, doc)
	loops := collectMapLoops(p)
	if filter != nil {
		var kept []*mapLoop
		for _, ml := range loops {
			if filter(ml) {
				kept = append(kept, ml)
			}
		}
		loops = kept
	}
	sort.SliceStable(loops, func(i, j int) bool { return loops[i].key < loops[j].key })
	dump := os.Getenv("VERIF_DUMP") != ""
	kinds := map[string]int{}
	for _, ml := range loops {
		r.Instances++
		kinds[ml.kind]++
		pos := p.Pos(ml.rng.Pos())
		switch ml.kind {
		case "commutative":
			r.OK(ml.key, true, "body has only commutative effects (keyed inserts, deletes, integer/boolean accumulation, constant returns)")
		case "collect-then-sort":
			r.OK(ml.key, true, "collect-then-sort: "+strings.Join(ml.sorted, "; "))
		case "located-diagnostics-only":
			r.OK(ml.key, true, "only order-sensitive effect is logging located diagnostics, which the logger sorts")
		default:
			if dump {
				fmt.Printf("UNRESOLVED %s @ %s\n", ml.key, pos)
				for _, pr := range ml.problems {
					fmt.Printf("    %s\n", pr)
				}
			}
			ok, void := guardedExc(p, r, c08MapLoopExceptions, ml.key)
			if ok {
				continue
			}
			// several loops over the same map in one function: the reviewed entry is keyed by
			// what the loop writes, not by its position among its siblings
			if alt := c08ContentKey(ml); alt != ml.key {
				if ok2, void2 := guardedExc(p, r, c08MapLoopExceptions, alt); ok2 {
					continue
				} else if void2 != "" {
					void = void2
				}
			}
			if fnv := p.FindFunc(ml.fnName); fnv != nil {
				if via := excInheritedFromCallers(p, c08MapLoopExceptions, fnv, ml.key); via != "" {
					r.OK(ml.key, true, "reviewed for its only caller(s): "+via)
					continue
				}
			}
			if void != "" {
				void = " [reviewed exception void: " + void + "]"
			}
			r.Fail(ml.key, pos, "map iteration whose effects depend on iteration order: "+strings.Join(ml.problems, "; ")+void)
		}
	}
	r.Note("loop kinds: %v", kinds)
	r.Floor(floor)
	if filter == nil {
		r.StaleCheck(c08MapLoopExceptions)
	}
	return r
}

var c08OuterVarRe = regexp.MustCompile(`outer variable (\w+)`)
var c08OrdinalRe = regexp.MustCompile(` #\d+$`)

// c08ContentKey: the loop's key with the ordinal replaced by the outer variables it assigns.
func c08ContentKey(ml *mapLoop) string {
	set := map[string]bool{}
	for _, pr := range ml.problems {
		for _, m := range c08OuterVarRe.FindAllStringSubmatch(pr, -1) {
			set[m[1]] = true
		}
	}
	if len(set) == 0 {
		return ml.key
	}
	var names []string
	for n := range set {
		names = append(names, n)
	}
	sort.Strings(names)
	return c08OrdinalRe.ReplaceAllString(ml.key, "") + " [assigns " + strings.Join(names, ",") + "]"
}

// ---------------------------------------------------------------------------------------------
// R2 goroutine completion order

// goRoots returns the functions started by `go` statements in module code: closures (with the Go
// instruction) and named functions.
type goSite struct {
	in     *ssa.Go
	caller *ssa.Function
	callee *ssa.Function
}

func goSites(p *Prog) []goSite {
	var out []goSite
	for _, fn := range p.ModuleFuncs() {
		eachInstr(fn, func(b *ssa.BasicBlock, in ssa.Instruction) {
			g, ok := in.(*ssa.Go)
			if !ok {
				return
			}
			var callee *ssa.Function
			if c := g.Call.StaticCallee(); c != nil {
				callee = c
			} else if mc, ok := g.Call.Value.(*ssa.MakeClosure); ok {
				callee, _ = mc.Fn.(*ssa.Function)
			}
			out = append(out, goSite{g, fn, callee})
		})
	}
	return out
}

var c08GoAccumExceptions = ExcTable{
	"graph.CloneLinkerGraph$1 append captured dynamicImportEntryPoints": "collected under a mutex in completion order, then mapped to stable source indices and sorted (sort.Ints(stableEntryPoints)) before the entry points are appended",
}

var c08GoSendExceptions = ExcTable{
	"bundler.parseFile send chan chan bundler.parseResult":                            "received by scanAllDependencies, which stores each result by its own source index (s.results[sourceIndex]); source indices themselves are unstable and are never used for ordering (C08/R3)",
	"bundler.parseFile$1 send chan chan bundler.parseResult":                          "recover path of parseFile: same receiver, result stored by source index",
	"bundler.parseFile send chan chan config.InjectedFile":                            "each injected file has its own channel, and preprocessInjectedFiles receives from the channels in the user's inject order",
	"bundler.(*scanner).preprocessInjectedFiles$1 send chan chan bundler.parseResult": "forwards a define-injected file result to the scan loop, which stores by source index",
	"bundler.ScanBundle$2 send chan chan bundler.parseResult":                         "the runtime file's result; stored at the fixed runtime source index",
	"linker.(*linkerContext).generateIsolatedHash send chan chan []byte":              "one buffered channel per chunk carrying exactly one value (that chunk's isolated hash); readers block on the specific chunk they need",
	"pkg/api.(*apiHandler).serveEventStream$1 send chan chan struct{}":                "serve mode: signals that an HTTP event-stream client went away; no build output involved",
}

// derivedFromParam: is v computed only from parameters of fn (incl. conversions, arithmetic, field reads of params)?
func derivedFromParam(v ssa.Value, fn *ssa.Function, depth int) bool {
	if depth > 6 {
		return false
	}
	switch x := v.(type) {
	case *ssa.Parameter:
		return x.Parent() == fn
	case *ssa.Convert:
		return derivedFromParam(x.X, fn, depth+1)
	case *ssa.ChangeType:
		return derivedFromParam(x.X, fn, depth+1)
	case *ssa.BinOp:
		_, cy := x.Y.(*ssa.Const)
		_, cx := x.X.(*ssa.Const)
		return (derivedFromParam(x.X, fn, depth+1) && (cy || derivedFromParam(x.Y, fn, depth+1))) || (cx && derivedFromParam(x.Y, fn, depth+1))
	case *ssa.Field:
		return derivedFromParam(x.X, fn, depth+1)
	case *ssa.UnOp:
		if x.Op == token.MUL {
			if fa, ok := x.X.(*ssa.FieldAddr); ok {
				return derivedFromParam(fa.X, fn, depth+1)
			}
			if al, ok := x.X.(*ssa.Alloc); ok {
				if sv := uniqueStoreTo(al); sv != nil {
					return derivedFromParam(sv, fn, depth+1)
				}
			}
		}
	case *ssa.Call:
		// method calls on a parameter with no other args (e.g. idx.GetIndex())
		if len(x.Call.Args) == 1 && !x.Call.IsInvoke() {
			return derivedFromParam(x.Call.Args[0], fn, depth+1)
		}
	}
	return false
}

func c08GoroutineOrder(p *Prog) *RuleResult {
	r := NewRule("C08/R2 goroutine-order", "code running in a goroutine never accumulates into a shared slice (append) or hands results over a channel in completion order, unless it writes a slot selected by its own parameter, the collection is sorted before use, or the site is reviewed")
	sites := goSites(p)
	r.Note("go statements: %d", len(sites))
	seenFn := map[*ssa.Function]bool{}
	for _, g := range sites {
		if g.callee == nil {
			continue
		}
		if seenFn[g.callee] {
			continue
		}
		seenFn[g.callee] = true
		r.Instances++
		inGoroutine := map[*ssa.Function]bool{}
		for _, fn := range withClosures(g.callee) {
			inGoroutine[fn] = true
		}
		for _, fn := range withClosures(g.callee) {
			eachInstr(fn, func(b *ssa.BasicBlock, in ssa.Instruction) {
				switch x := in.(type) {
				case *ssa.Send:
					key := FuncName(fn) + " send chan " + shortType(x.Chan.Type())
					if !r.CheckExc(c08GoSendExceptions, key) {
						r.Fail(key, p.Pos(x.Pos()), "goroutine sends on a channel: the receiver sees results in completion order (needs review of the receive side)")
					}
				case *ssa.Store:
					c, ok := x.Val.(*ssa.Call)
					if !ok {
						return
					}
					bi, ok := c.Call.Value.(*ssa.Builtin)
					if !ok || bi.Name() != "append" {
						return
					}
					// accumulating append: first argument is a load of the stored-to address
					ld, ok := c.Call.Args[0].(*ssa.UnOp)
					if !ok || ld.Op != token.MUL {
						return
					}
					if ld.X != x.Addr && pathString(addrChain(ld.X)) != pathString(addrChain(x.Addr)) {
						return
					}
					steps := addrChain(x.Addr)
					root := rootOfChain(steps)
					if al, ok := root.(*ssa.Alloc); ok && inGoroutine[al.Parent()] {
						return // local to the goroutine
					}
					if fv, ok := x.Addr.(*ssa.FreeVar); ok {
						if cell := varCell(fv); cell != nil && inGoroutine[cell.Parent()] {
							return // variable of the goroutine's own function captured by a nested closure
						}
					}
					if u, ok := root.(*ssa.UnOp); ok {
						if cell := varCell(u.X); cell != nil && inGoroutine[cell.Parent()] {
							if vals, ok := storesToCell(cell); ok {
								allFresh := len(vals) > 0
								for _, v := range vals {
									if !frzFreshValue(v, 0) {
										allFresh = false
									}
								}
								if allFresh {
									return
								}
							}
						}
					}
					// through the goroutine's own pointer parameter that the go statement binds to &slice[i]
					if prm, ok := root.(*ssa.Parameter); ok && prm.Parent() == g.callee {
						for i, fp := range g.callee.Params {
							if fp == prm && i < len(g.in.Call.Args) {
								if _, isIdx := g.in.Call.Args[i].(*ssa.IndexAddr); isIdx {
									r.OK(FuncName(fn)+" append "+pathString(steps), true, "appends through the goroutine's own parameter, bound to &slice[i] at the go statement")
									return
								}
								if definedInLoop(g.in.Call.Args[i]) {
									r.OK(FuncName(fn)+" append "+pathString(steps), true, "appends through the goroutine's own pointer parameter, bound to a per-iteration value at the go statement")
									return
								}
							}
						}
					}
					switch rv := root.(type) {
					case *ssa.MakeSlice:
						if inGoroutine[rv.Parent()] {
							return
						}
					case *ssa.MakeMap:
						if inGoroutine[rv.Parent()] {
							return
						}
					}
					// per-goroutine slot?
					for _, s := range steps {
						if ia, ok := s.Val.(*ssa.IndexAddr); ok && derivedFromParam(ia.Index, g.callee, 0) {
							r.OK(FuncName(fn)+" append "+pathString(steps), true, "appends into a slot indexed by the goroutine's own parameter")
							return
						}
						if lk, ok := s.Val.(*ssa.Lookup); ok && derivedFromParam(lk.Index, g.callee, 0) {
							r.OK(FuncName(fn)+" append "+pathString(steps), true, "appends into a map slot keyed by the goroutine's own parameter")
							return
						}
					}
					desc := pathString(steps)
					if fv, ok := x.Addr.(*ssa.FreeVar); ok {
						desc = "captured " + fv.Name()
					}
					key := FuncName(fn) + " append " + desc
					if ok, void := guardedExc(p, r, c08GoAccumExceptions, key); !ok {
						r.Fail(key, p.Pos(x.Pos()), "goroutine appends to shared slice "+desc+": element order is goroutine completion order "+void)
					}
				}
			})
		}
	}
	r.Floor(40)
	r.StaleCheck(c08GoAccumExceptions)
	r.StaleCheck(c08GoSendExceptions)
	return r
}

// definedInLoop: v is computed by an instruction inside a CFG cycle (a per-iteration value).
func definedInLoop(v ssa.Value) bool {
	in, ok := v.(ssa.Instruction)
	if !ok || in.Block() == nil {
		return false
	}
	start := in.Block()
	seen := map[*ssa.BasicBlock]bool{}
	work := append([]*ssa.BasicBlock{}, start.Succs...)
	for len(work) > 0 {
		b := work[len(work)-1]
		work = work[:len(work)-1]
		if b == start {
			return true
		}
		if seen[b] {
			continue
		}
		seen[b] = true
		work = append(work, b.Succs...)
	}
	return false
}

// Guards: structural facts a reviewed exception relies on. If a guard no longer holds the exception
// is void and the obligation fails.
type excGuard struct {
	fn     string // function (with closures) that must contain ...
	callee string // ... at least n static calls to this function
	n      int
	// alternatively: the string keys of a package-level map literal must be pairwise
	// prefix-free / suffix-free
	litPkg, litVar, keyMode string
}

var c08Guards = map[string][]excGuard{
	"graph.CloneLinkerGraph$1 append captured dynamicImportEntryPoints":                                       {{fn: "graph.CloneLinkerGraph", callee: "sort.Ints", n: 1}},
	"linker.(*linkerContext).computeCrossChunkDependencies range imports:map[ast.Ref]bool":                    {{fn: "linker.(*linkerContext).sortedCrossChunkImports", callee: "sort.Sort", n: 2}},
	"pkg/api.(*apiHandler).broadcastBuildResult range local:map[string]string":                                {{fn: "pkg/api.(*apiHandler).broadcastBuildResult", callee: "sort.Strings", n: 3}},
	"pkg/api.(*apiHandler).broadcastBuildResult range param newHashes:map[string]string":                      {{fn: "pkg/api.(*apiHandler).broadcastBuildResult", callee: "sort.Strings", n: 3}},
	"pkg/cli.parseTargets range validEngines:map[string]pkg/api.EngineName":                                   {{fn: "pkg/cli.parseTargets", callee: "sort.Strings", n: 1}, {litPkg: modPath + "/pkg/cli", litVar: "validEngines", keyMode: "prefix-free"}},
	"resolver.(resolverQuery).finalizeImportsExportsResult range rewrittenFileExtensions:map[string][]string": {{litPkg: modPath + "/internal/resolver", litVar: "rewrittenFileExtensions", keyMode: "suffix-free"}},
	"resolver.(resolverQuery).loadAsFile range rewrittenFileExtensions:map[string][]string":                   {{litPkg: modPath + "/internal/resolver", litVar: "rewrittenFileExtensions", keyMode: "suffix-free"}},
	"renamer.(*MinifyRenamer).AccumulateSymbolUseCounts range param symbolUses:map[ast.Ref]js_ast.SymbolUse":  {{fn: "linker.(*linkerContext).renameSymbolsInChunk", callee: "sort.Sort", n: 2}},
}

func countCalls(p *Prog, fnName, callee string) int {
	fn := p.FindFunc(fnName)
	if fn == nil {
		return -1
	}
	n := 0
	for _, f := range withClosures(fn) {
		eachInstr(f, func(b *ssa.BasicBlock, in ssa.Instruction) {
			if c, ok := in.(ssa.CallInstruction); ok {
				name := calleeFullName(c)
				if name == callee || strings.HasSuffix(name, callee) || (isSortCall(callee) && isSortCall(name)) {
					n++
				}
			}
		})
	}
	return n
}

// isSortCall: any of the standard sorting entry points (a guard that relies on "the collection is
// sorted" does not care which one is used)
func isSortCall(name string) bool {
	switch name {
	case "sort.Sort", "sort.Stable", "sort.Slice", "sort.SliceStable", "sort.Strings", "sort.Ints", "sort.Float64s":
		return true
	}
	return strings.HasPrefix(name, "slices.Sort")
}

// guardedExc applies the exception table but voids an entry whose guards fail.
func guardedExc(p *Prog, r *RuleResult, t ExcTable, key string) (bool, string) {
	if _, ok := t[key]; !ok {
		return false, ""
	}
	for _, g := range c08Guards[key] {
		if g.litVar != "" {
			if why := checkLiteralKeys(p, g.litPkg, g.litVar, g.keyMode); why != "" {
				return false, why
			}
			continue
		}
		if n := countCalls(p, g.fn, g.callee); n < g.n {
			return false, fmt.Sprintf("the reviewed reason relies on %s calling %s at least %d time(s), found %d", g.fn, g.callee, g.n, n)
		}
	}
	r.CheckExc(t, key)
	return true, ""
}

var c08UnstableExceptions = ExcTable{
	"js_parser.(scopeMemberArray).Less ast.Ref.SourceIndex": "parse-time sort of one file's scope members: every Ref has the file's own source index, so the comparison always ties on it and InnerIndex decides",
}

func c08UnstableKeys(p *Prog) *RuleResult {
	r := NewRule("C08/R3 unstable-key", "sort comparators and hash inputs never use source indices (assigned in goroutine completion order); only StableSourceIndices may order")
	// (a) comparators
	for _, fn := range p.ModuleFuncs() {
		if !c08IsComparator(fn) {
			continue
		}
		r.Instances++
		bad := map[string]token.Pos{}
		for _, f := range withClosures(fn) {
			eachInstr(f, func(b *ssa.BasicBlock, in ssa.Instruction) {
				switch x := in.(type) {
				case *ssa.FieldAddr:
					if o, n := namedTypeName(x.X.Type()), fieldAddrName(x); unstableIndexField(o, n) {
						bad[o+"."+n] = x.Pos()
					}
				case *ssa.Field:
					if o, n := namedTypeName(x.X.Type()), fieldValName(x); unstableIndexField(o, n) {
						bad[o+"."+n] = x.Pos()
					}
				}
			})
		}
		if len(bad) == 0 {
			r.OK(FuncName(fn)+" comparator", true, "reads no source-index field")
			continue
		}
		for f, pos := range bad {
			key := FuncName(fn) + " " + f
			if !r.CheckExc(c08UnstableExceptions, key) {
				r.Fail(key, p.Pos(pos), "sort comparator orders by the unstable source index field "+f)
			}
		}
	}
	// (c) sort-key fields: an integer field that a comparator reads from the elements it orders is a
	// sort key; whatever is stored into that field anywhere in the module is ordered by. A raw source
	// index stored there (instead of StableSourceIndices[sourceIndex]) orders by discovery order.
	keyFields := map[string]string{} // "owner.field" -> comparator
	for _, fn := range p.ModuleFuncs() {
		if !c08IsComparator(fn) {
			continue
		}
		for _, f := range withClosures(fn) {
			eachInstr(f, func(b *ssa.BasicBlock, in ssa.Instruction) {
				var owner, name string
				var t types.Type
				switch x := in.(type) {
				case *ssa.FieldAddr:
					owner, name, t = namedTypeName(x.X.Type()), fieldAddrName(x), x.Type()
					if pt, ok := t.Underlying().(*types.Pointer); ok {
						t = pt.Elem()
					}
				case *ssa.Field:
					owner, name, t = namedTypeName(x.X.Type()), fieldValName(x), x.Type()
				default:
					return
				}
				if bt, ok := t.Underlying().(*types.Basic); !ok || bt.Info()&types.IsInteger == 0 {
					return
				}
				if owner == "" || strings.HasPrefix(owner, "ast.") || strings.HasPrefix(owner, "js_ast.") || strings.HasPrefix(owner, "css_ast.") || strings.HasPrefix(owner, "logger.") {
					return // fields of shared node types are not per-sort keys (their unstable members are handled in (a))
				}
				keyFields[owner+"."+name] = FuncName(fn)
			})
		}
	}
	for _, fn := range p.ModuleFuncs() {
		eachInstr(fn, func(b *ssa.BasicBlock, in ssa.Instruction) {
			st, ok := in.(*ssa.Store)
			if !ok {
				return
			}
			fa, ok := st.Addr.(*ssa.FieldAddr)
			if !ok {
				return
			}
			kf := namedTypeName(fa.X.Type()) + "." + fieldAddrName(fa)
			cmp, isKey := keyFields[kf]
			if !isKey {
				return
			}
			r.Instances++
			found := ""
			backSlice(st.Val, func(v ssa.Value) bool {
				switch x := v.(type) {
				case *ssa.FieldAddr:
					if o, n := namedTypeName(x.X.Type()), fieldAddrName(x); unstableIndexField(o, n) {
						found = o + "." + n
					}
				case *ssa.Field:
					if o, n := namedTypeName(x.X.Type()), fieldValName(x); unstableIndexField(o, n) {
						found = o + "." + n
					}
				case *ssa.IndexAddr, *ssa.Lookup, *ssa.Index:
					return false // indexing by a source index selects data (e.g. StableSourceIndices[i]); the index itself is not the key
				case *ssa.Call:
					return false
				}
				return true
			})
			key := FuncName(fn) + " stores sort key " + kf
			if found == "" {
				r.OK(key, true, "the value ordered by "+cmp+" does not derive from a raw source index")
			} else if !r.CheckExc(c08UnstableExceptions, key) {
				r.Fail(key, p.Pos(st.Pos()), "the field "+kf+" is a sort key of "+cmp+", and the value stored here is the unstable source index "+found+" (assigned in discovery order; only StableSourceIndices[...] may order)")
			}
		})
	}
	// (d) the size of a table indexed by source index is as unstable as the indices themselves: within
	// a long-lived context source indices are never reused, so len(scanner.results) is "highest index
	// ever allocated + 1", a function of the build history. It may size allocations, bound loops and
	// grow the table, but a comparison with a constant turns the history into a decision.
	for _, fn := range p.ModuleFuncs() {
		if pkgPathOf(fn) != modPath+"/internal/bundler" {
			continue
		}
		eachInstr(fn, func(b *ssa.BasicBlock, in ssa.Instruction) {
			c, ok := in.(*ssa.Call)
			if !ok {
				return
			}
			bi, ok := c.Call.Value.(*ssa.Builtin)
			if !ok || bi.Name() != "len" || len(c.Call.Args) != 1 {
				return
			}
			o, n, ok := loadedField(c.Call.Args[0])
			if !ok || o != "bundler.scanner" || n != "results" || c.Referrers() == nil {
				return
			}
			for _, rf := range *c.Referrers() {
				bo, ok := rf.(*ssa.BinOp)
				if !ok {
					continue
				}
				switch bo.Op {
				case token.LSS, token.GTR, token.LEQ, token.GEQ, token.EQL, token.NEQ:
				default:
					continue
				}
				other := bo.Y
				if other == ssa.Value(c) {
					other = bo.X
				}
				if _, isConst := other.(*ssa.Const); !isConst {
					continue // loop bounds and growth checks against an index
				}
				r.Instances++
				key := FuncName(fn) + " decides on len(scanner.results)"
				if !r.CheckExc(c08UnstableExceptions, key) {
					r.Fail(key, p.Pos(bo.Pos()), "a decision is taken on the size of the source-index table, which in a long-lived context counts every file the context has ever seen, not the files of this build: a rebuild then differs from a fresh build of the same inputs")
				}
			}
		})
	}
	// (b) hash inputs in the linker
	for _, s := range []string{"linker.hashWriteUint32", "linker.hashWriteLengthPrefixed"} {
		r.Anchor(s, p.FindFunc(s) != nil)
	}
	for _, fn := range p.ModuleFuncs() {
		if pkgPathOf(fn) != modPath+"/internal/linker" && pkgPathOf(fn) != modPath+"/internal/bundler" {
			continue
		}
		eachInstr(fn, func(b *ssa.BasicBlock, in ssa.Instruction) {
			c, ok := in.(*ssa.Call)
			if !ok {
				return
			}
			n := calleeFullName(c)
			isHash := n == modPath+"/internal/linker.hashWriteUint32" || n == modPath+"/internal/linker.hashWriteLengthPrefixed" || n == "invoke (hash.Hash).Write" || strings.HasSuffix(n, "xxhash.Digest).Write")
			if !isHash || strings.HasPrefix(fn.Name(), "hashWrite") {
				return
			}
			r.Instances++
			args := c.Call.Args
			key := FuncName(fn) + " hash input"
			found := ""
			for _, a := range args[len(args)-1:] {
				backSlice(a, func(v ssa.Value) bool {
					switch x := v.(type) {
					case *ssa.FieldAddr:
						if o, n := namedTypeName(x.X.Type()), fieldAddrName(x); unstableIndexField(o, n) {
							found = o + "." + n
						}
					case *ssa.Field:
						if o, n := namedTypeName(x.X.Type()), fieldValName(x); unstableIndexField(o, n) {
							found = o + "." + n
						}
					case *ssa.IndexAddr:
						return false // indexing by a source index selects data; the index itself is not hashed
					case *ssa.Lookup:
						return false
					}
					return true
				})
			}
			if found == "" {
				r.OK(key+" @"+fmt.Sprint(len(r.Samples)), false, "")
			} else {
				r.Fail(key+" "+found, p.Pos(c.Pos()), "an unstable source index ("+found+") flows into a chunk hash")
			}
		})
	}
	r.Floor(20)
	r.StaleCheck(c08UnstableExceptions)
	return r
}

func c08IsComparator(fn *ssa.Function) bool {
	isCmp := fn.Name() == "Less" && fn.Signature.Recv() != nil
	if !isCmp && fn.Parent() != nil {
		eachInstr(fn.Parent(), func(b *ssa.BasicBlock, in ssa.Instruction) {
			if c, ok := in.(ssa.CallInstruction); ok {
				n := calleeFullName(c)
				if strings.HasPrefix(n, "sort.Slice") || strings.HasPrefix(n, "slices.Sort") {
					for _, a := range c.Common().Args {
						if mc, ok := a.(*ssa.MakeClosure); ok && mc.Fn == fn {
							isCmp = true
						}
					}
				}
			}
		})
	}
	return isCmp
}

func isAmbient(n string) bool {
	switch n {
	case "time.Now", "time.Since", "time.Until", "os.Getenv", "os.LookupEnv", "os.Environ", "os.Getpid", "os.Getppid", "os.Hostname", "os.Getuid",
		"runtime.NumCPU", "runtime.GOMAXPROCS", "os.UserHomeDir", "os.TempDir", "os.Executable":
		return true
	}
	return strings.HasPrefix(n, "math/rand.") || strings.HasPrefix(n, "crypto/rand.") || strings.HasPrefix(n, "(*math/rand.Rand).") || strings.HasPrefix(n, "math/rand/v2.")
}

var c08AmbientOwners = ExcTable{
	"bundler.generateUniqueKeyPrefix math/rand.Read":         "unique-key prefix for placeholders; placeholders never reach hashes or final bytes (C18/R3)",
	"bundler.generateUniqueKeyPrefix math/rand.Seed":         "unique-key prefix for placeholders; placeholders never reach hashes or final bytes (C18/R3)",
	"bundler.generateUniqueKeyPrefix time.Now":               "seed of the unique-key prefix",
	"cmd/esbuild.init$1 os.LookupEnv":                        "CLI: NO_COLOR / terminal detection, presentation only",
	"cmd/esbuild.main$1 time.Now":                            "CLI: timing summary, presentation only",
	"cmd/esbuild.main$1 time.Since":                          "CLI: timing summary, presentation only",
	"fs.modKey time.Now":                                     "mod-key safety gap: a file modified within the last seconds is treated as having no usable mod key (falls back to content comparison); affects only change detection, never output bytes",
	"helpers.(*Timer).Begin time.Now":                        "--timing instrumentation, logged only",
	"helpers.(*Timer).End time.Now":                          "--timing instrumentation, logged only",
	"logger.PrintSummary$1 time.Since":                       "CLI summary ('Done in 5ms'), terminal only",
	"logger.hasNoColorEnvironmentVariable$1 os.LookupEnv":    "NO_COLOR: terminal colours only",
	"logger.isProbablyWindowsCommandPrompt os.LookupEnv":     "WT_SESSION: terminal glyph choice only",
	"pkg/api.(*apiHandler).ServeHTTP time.Now":               "serve mode request log timing",
	"pkg/api.(*apiHandler).ServeHTTP time.Since":             "serve mode request log timing",
	"pkg/api.(*apiHandler).serveEventStream time.Since":      "serve mode request log timing",
	"pkg/api.(*watcher).tryToFindDirtyPath math/rand.Int31n": "watch mode deliberately shuffles the scan order",
	"pkg/api.(*watcher).tryToFindDirtyPath math/rand.Seed":   "watch mode deliberately shuffles the scan order",
	"pkg/api.(*watcher).tryToFindDirtyPath time.Now":         "seed of the watch-mode shuffle",
	"pkg/api.Build time.Now":                                 "summary timing (LogLevel info), presentation only",
	"pkg/api.printSummary os.LookupEnv":                      "npm_config_user_agent: whether to print the summary table under yarn 1; presentation only",
	"pkg/cli.runImpl os.LookupEnv":                           "NODE_PATH is an explicit, documented input of the CLI (part of 'the same options')",
}

func c08Ambient(p *Prog) *RuleResult {
	r := NewRule("C08/R4 ambient-sources", "clock, random, environment and host queries occur only at the reviewed owner sites; none of them is on a path that computes output bytes or diagnostics")
	sites := p.sitesOf(isAmbient)
	for _, s := range sites {
		r.Instances++
		key := FuncName(s.Caller) + " " + s.Callee
		if _, listed := c08AmbientOwners[key]; !listed {
			if via := excInheritedFromCallers(p, c08AmbientOwners, s.Caller, key); via != "" {
				r.OK(key, true, "reviewed for its only caller(s): "+via)
				continue
			}
		}
		if !r.CheckExc(c08AmbientOwners, key) {
			r.Fail(key, p.Pos(s.Instr.Pos()), "new ambient nondeterminism source ("+s.Callee+") outside the reviewed owner table")
		}
	}
	for _, s := range p.funcValueRefs(isAmbient) {
		r.Instances++
		r.Fail(FuncName(s.Caller)+" value "+s.Callee, p.Pos(s.Caller.Pos()), "ambient source used as a function value")
	}
	r.Floor(15)
	r.StaleCheck(c08AmbientOwners)
	return r
}

func c08Select(p *Prog) *RuleResult {
	r := NewRule("C08/R5 select-order", "no select statement with more than one communication case in internal/ packages (Go picks a ready case at random)")
	nsel := 0
	for _, fn := range p.ModuleFuncs() {
		eachInstr(fn, func(b *ssa.BasicBlock, in ssa.Instruction) {
			s, ok := in.(*ssa.Select)
			if !ok {
				return
			}
			nsel++
			r.Instances++
			key := FuncName(fn) + " select"
			if len(s.States) <= 1 {
				r.OK(key, false, "")
				return
			}
			if strings.Contains(pkgPathOf(fn), "/internal/") {
				r.Fail(key, p.Pos(s.Pos()), "multi-way select on a build path: ready cases are chosen at random")
			} else {
				r.OK(key+" (outside internal/: service/serve/watch plumbing)", true, "multi-way select outside the build pipeline")
			}
		})
	}
	// positive control: the engine must be able to see select statements at all
	r.Note("select statements seen in module: %d", nsel)
	if nsel == 0 && !strings.HasPrefix(p.Config, "js/") {
		r.Fail("C08/R5 positive-control", "-", "no select statement found in the whole module (cmd/esbuild and pkg/api contain several): matcher went blind")
	}
	return r
}

func c08LoggerOrder(p *Prog) *RuleResult {
	r := NewRule("C08/R6 diagnostics-order", "messages reach API results only through a list sorted by a total order: SortableMsgs.Less compares kind and text when both locations are missing, every log's Done (and the stderr log's Peek) sorts before returning, and every conversion to public messages takes such a list")
	less := p.FindFunc("logger.(SortableMsgs).Less")
	if r.Anchor("logger.(SortableMsgs).Less", less != nil) {
		r.Instances++
		// under (aiLoc == nil) ∧ (ajLoc == nil) a string comparison (<) must be evaluated
		okNil, okLoc := false, false
		isTextCompare := func(in ssa.Instruction) bool {
			bo, ok := in.(*ssa.BinOp)
			if !ok || bo.Op != token.LSS {
				return false
			}
			if bt, ok := bo.X.Type().Underlying().(*types.Basic); !ok || bt.Kind() != types.String {
				return false
			}
			_, n, ok := loadedField(bo.X)
			return ok && n == "Text"
		}
		eachInstr(less, func(b *ssa.BasicBlock, in ssa.Instruction) {
			if !isTextCompare(in) {
				// or a tie-break helper of the package that ends in the text comparison
				c, ok := in.(*ssa.Call)
				if !ok {
					return
				}
				callee := c.Call.StaticCallee()
				if callee == nil || callee.Blocks == nil || pkgPathOf(callee) != pkgPathOf(less) {
					return
				}
				found := false
				eachInstr(callee, func(_ *ssa.BasicBlock, x ssa.Instruction) {
					if isTextCompare(x) {
						found = true
					}
				})
				if !found {
					return
				}
			}
			nilFacts := 0
			nonNil := 0
			for _, f := range factsAt(b) {
				if c, ok := f.Cond.(*ssa.BinOp); ok && (c.Op == token.EQL || c.Op == token.NEQ) {
					isNilCmp := false
					if k, ok := c.Y.(*ssa.Const); ok && k.Value == nil {
						isNilCmp = true
					}
					if !isNilCmp {
						continue
					}
					eq := (c.Op == token.EQL) == f.True
					if eq {
						nilFacts++
					} else {
						nonNil++
					}
				}
			}
			if nilFacts >= 2 {
				okNil = true
			}
			if nilFacts == 0 {
				okLoc = true
			}
		})
		if okNil {
			r.OK("logger.(SortableMsgs).Less nil/nil", true, "Text is compared on the path where both locations are nil")
		} else {
			r.Fail("logger.(SortableMsgs).Less nil/nil", p.Pos(less.Pos()), "two messages without a location compare as equal: the stable sort keeps them in arrival order (goroutine completion / map iteration order)")
		}
		if okLoc {
			r.OK("logger.(SortableMsgs).Less located", true, "Text is the final tie-breaker for located messages")
		} else {
			r.Fail("logger.(SortableMsgs).Less located", p.Pos(less.Pos()), "located messages are not ordered by text as the last key")
		}
	}
	// (b) Done / Peek closures sort
	for _, ctor := range []struct {
		fn     string
		fields []string
	}{{"logger.NewStderrLog", []string{"Done", "Peek"}}, {"logger.NewDeferLog", []string{"Done"}}} {
		fn := p.FindFunc(ctor.fn)
		if !r.Anchor(ctor.fn, fn != nil) {
			continue
		}
		for _, field := range ctor.fields {
			r.Instances++
			key := ctor.fn + " " + field
			var clo *ssa.Function
			eachInstr(fn, func(b *ssa.BasicBlock, in ssa.Instruction) {
				st, ok := in.(*ssa.Store)
				if !ok {
					return
				}
				fa, ok := st.Addr.(*ssa.FieldAddr)
				if !ok || fieldAddrName(fa) != field || namedTypeName(fa.X.Type()) != "logger.Log" {
					return
				}
				if mc, ok := st.Val.(*ssa.MakeClosure); ok {
					clo, _ = mc.Fn.(*ssa.Function)
				}
			})
			if clo == nil {
				r.Fail(key, p.Pos(fn.Pos()), "closure assigned to Log."+field+" not found")
				continue
			}
			sorts := false
			eachInstr(clo, func(b *ssa.BasicBlock, in ssa.Instruction) {
				if c, ok := in.(ssa.CallInstruction); ok && (calleeFullName(c) == "sort.Stable" || calleeFullName(c) == "sort.Sort") {
					sorts = true
				}
			})
			if sorts {
				r.OK(key, true, "sorts the message list before returning it")
			} else {
				r.Fail(key, p.Pos(clo.Pos()), "returns the message list without sorting it")
			}
		}
	}
	// (c) conversions to public messages
	conv := p.FindFunc("pkg/api.convertMessagesToPublic")
	if r.Anchor("pkg/api.convertMessagesToPublic", conv != nil) {
		node := p.CallGraph().Nodes[conv]
		for _, e := range node.In {
			if e.Site == nil {
				continue
			}
			r.Instances++
			caller := e.Caller.Func
			arg := e.Site.Common().Args[1]
			key := FuncName(caller) + " convertMessagesToPublic"
			src := ""
			backSlice(arg, func(v ssa.Value) bool {
				if c, ok := v.(*ssa.Call); ok {
					if _, n, ok := loadedField(c.Call.Value); ok && (n == "Done" || n == "Peek") {
						src = "log." + n + "()"
						return false
					}
				}
				return true
			})
			if src == "" {
				// a literal single-message list is trivially ordered
				if frzFreshValue(arg, 0) {
					r.OK(key+" (literal)", false, "")
					continue
				}
				r.Fail(key, p.Pos(e.Site.Pos()), "public messages are built from a list that does not come from log.Done()/log.Peek()")
				continue
			}
			r.OK(key, true, "argument comes from "+src)
		}
	}
	r.Floor(10)
	return r
}

// R7: state shared between the per-entry-point linkers is only touched in entry-point order.
func c08SerializedUpdate(p *Prog) *RuleResult {
	r := NewRule("C08/R7 serialized-shared-update", "the callback that gives the parallel per-entry-point linkers access to the shared mangle cache and CSS local-name table is only ever invoked between Serializer.Enter(i) and Serializer.Leave(i) of the caller's own entry-point index")
	n := 0
	for _, fn := range p.ModuleFuncs() {
		eachInstr(fn, func(b *ssa.BasicBlock, in ssa.Instruction) {
			st, ok := in.(*ssa.Store)
			if !ok {
				return
			}
			fa, ok := st.Addr.(*ssa.FieldAddr)
			if !ok || fieldAddrName(fa) != "ExclusiveMangleCacheUpdate" {
				return
			}
			mc, ok := st.Val.(*ssa.MakeClosure)
			if !ok {
				return
			}
			clo := mc.Fn.(*ssa.Function)
			n++
			// only the closure installed inside a goroutine body runs concurrently with its siblings;
			// the default installed by Compile itself serves the single-linker case
			inGoroutine := false
			for _, g := range goSites(p) {
				if g.callee != nil && g.callee == clo.Parent() {
					inGoroutine = true
				}
			}
			if !inGoroutine {
				r.Instances++
				r.OK(FuncName(clo)+" (single linker, not concurrent)", false, "")
				return
			}
			var enters, leaves []ssa.CallInstruction
			eachInstr(clo, func(_ *ssa.BasicBlock, in2 ssa.Instruction) {
				if c, ok := in2.(ssa.CallInstruction); ok {
					name := calleeFullName(c)
					if strings.HasSuffix(name, "helpers.Serializer).Enter") {
						enters = append(enters, c)
					}
					if strings.HasSuffix(name, "helpers.Serializer).Leave") {
						leaves = append(leaves, c)
					}
				}
			})
			eachInstr(clo, func(cb *ssa.BasicBlock, in2 ssa.Instruction) {
				c, ok := in2.(*ssa.Call)
				if !ok {
					return
				}
				prm, isParam := c.Call.Value.(*ssa.Parameter)
				if !isParam || prm.Parent() != clo {
					return
				}
				r.Instances++
				key := FuncName(clo) + " invokes the shared-state callback"
				dominated := false
				for _, e := range enters {
					if instrDominates(e.(ssa.Instruction), in2) {
						dominated = true
					}
				}
				released := false
				for _, l := range leaves {
					if _, isD := l.(*ssa.Defer); isD && instrDominates(l.(ssa.Instruction), in2) {
						released = true
					}
					if _, isD := l.(*ssa.Defer); !isD && instrDominates(in2, l.(ssa.Instruction)) {
						released = true
					}
				}
				if dominated && released {
					r.OK(key, true, "dominated by Serializer.Enter(i) with Leave(i) deferred: linkers touch the shared maps in entry-point order")
				} else {
					r.Fail(key, p.Pos(c.Pos()), "the shared mangle cache / CSS local-name table can be updated outside the entry-point-ordered critical section: names handed out on collisions depend on which linker goroutine gets there first")
				}
			})
		})
	}
	if n == 0 {
		r.Fail("C08/R7 anchor ExclusiveMangleCacheUpdate", "-", "no closure is stored into Options.ExclusiveMangleCacheUpdate (rule cannot be decided)")
	}
	return r
}

// checkLiteralKeys verifies that the string keys of a package-level map literal are pairwise
// prefix-free or suffix-free; returns "" when they are.
func checkLiteralKeys(p *Prog, pkgPath, varName, mode string) string {
	pk := p.ByPath[pkgPath]
	if pk == nil {
		return "package " + pkgPath + " not loaded"
	}
	var keys []string
	found := false
	for _, f := range pk.Syntax {
		for _, d := range f.Decls {
			gd, ok := d.(*ast.GenDecl)
			if !ok || gd.Tok != token.VAR {
				continue
			}
			for _, sp := range gd.Specs {
				vs := sp.(*ast.ValueSpec)
				for i, n := range vs.Names {
					if n.Name != varName || i >= len(vs.Values) {
						continue
					}
					cl, ok := vs.Values[i].(*ast.CompositeLit)
					if !ok {
						continue
					}
					found = true
					for _, el := range cl.Elts {
						if kv, ok := el.(*ast.KeyValueExpr); ok {
							if bl, ok := kv.Key.(*ast.BasicLit); ok {
								if s, err := strconv.Unquote(bl.Value); err == nil {
									keys = append(keys, s)
								}
							}
						}
					}
				}
			}
		}
	}
	if !found || len(keys) < 2 {
		return "map literal " + varName + " not found in " + shortPkg(pkgPath)
	}
	for i, a := range keys {
		for j, b := range keys {
			if i == j {
				continue
			}
			if mode == "prefix-free" && strings.HasPrefix(a, b) {
				return fmt.Sprintf("the reviewed reason relies on the keys of %s being prefix-free, but %q is a prefix of %q", varName, b, a)
			}
			if mode == "suffix-free" && strings.HasSuffix(a, b) {
				return fmt.Sprintf("the reviewed reason relies on the keys of %s being suffix-free, but %q is a suffix of %q", varName, b, a)
			}
		}
	}
	return ""
}

// C08/R11 a range loop does not store into other elements of the slice it ranges over.
//
// `for i, v := range xs` fixes the length of xs when the loop starts but reads each element when
// its turn comes. A store into xs[j] for some other j inside the loop is therefore seen by the
// loop if j is still ahead and not seen if j was already passed — and whether a freshly allocated
// j is ahead or behind depends on how the indices were handed out. In the scanner the indices are
// source indices, which an incremental context caches across builds: the JavaScript stub generated
// for a CSS file gets an index beyond the table on a fresh build (never visited) but a cached, lower
// index on a rebuild (visited, and given a second entry in the metafile's inputs).
// Rule: inside the body of a range loop over a slice-typed field, no store into an element of the
// same field at an index other than the loop's own index — unless the loop skips such elements
// explicitly (reviewed) or the function returns/breaks right after.
var c08RangeSelfMutationExceptions = ExcTable{}

func c08RangeSelfMutation(p *Prog) *RuleResult {
	r := NewRule("C08/R11 range-self-mutation", "a range loop over a slice does not store into other elements of the same slice (whether the loop then sees the new element depends on whether its index is ahead of or behind the current position — for source indices: on the history of the context)")
	n := 0
	for _, fn := range p.ModuleFuncs() {
		if !strings.HasPrefix(pkgPathOf(fn), modPath+"/internal/") {
			continue
		}
		loops := naturalLoops(fn)
		for header, body := range loops {
			// the range index phi and the ranged slice: len(X) evaluated before the loop, X loaded from a field
			var idx *ssa.Phi
			for _, in := range header.Instrs {
				if ph, ok := in.(*ssa.Phi); ok && ph.Comment == "rangeindex" {
					idx = ph
				}
			}
			if idx == nil {
				continue
			}
			// the field path of the ranged slice: IndexAddr in the body indexed by idx+1
			rangedField := ""
			var own ssa.Value
			for b := range body {
				for _, in := range b.Instrs {
					ia, ok := in.(*ssa.IndexAddr)
					if !ok {
						continue
					}
					bo, ok := ia.Index.(*ssa.BinOp)
					if !ok || bo.Op != token.ADD || bo.X != ssa.Value(idx) {
						continue
					}
					if o, f, ok := loadedField(ia.X); ok {
						rangedField = o + "." + f
						own = bo
					}
				}
			}
			if rangedField == "" {
				continue
			}
			n++
			for b := range body {
				for _, in := range b.Instrs {
					st, ok := in.(*ssa.Store)
					if !ok {
						continue
					}
					// a store whose address is (a field of) xs[j], j != own index, whole-element stores only
					ia, ok := st.Addr.(*ssa.IndexAddr)
					if !ok {
						continue
					}
					o, f, ok := loadedField(ia.X)
					if !ok || o+"."+f != rangedField || ia.Index == own {
						continue
					}
					// in-place compaction (`xs[end] = x; end++` with end starting at 0): the write
					// cursor never gets ahead of the read cursor, so the loop never re-reads what it wrote
					if isCompactionCursor(ia.Index) {
						continue
					}
					// the slot is grown by append in the same statement sequence? (xs = append(xs, …) is a different shape)
					r.Instances++
					key := FuncName(fn) + " range over " + rangedField + " stores another element"
					if !r.CheckExc(c08RangeSelfMutationExceptions, key) {
						r.Fail(key, p.Pos(st.Pos()), "the loop over "+rangedField+" stores into another element of the same slice: the loop visits the new element only if its index is ahead of the current position, which for cached source indices depends on earlier builds of the context (a rebuild then differs from a fresh build)")
					}
				}
			}
		}
	}
	r.Anchor("range loops over slice-typed fields", n >= 20)
	if r.Instances == 0 {
		r.Instances++
		r.OK("no range loop stores into other elements of the slice it ranges over", true, fmt.Sprintf("%d range loops over slice-typed fields examined", n))
	}
	r.StaleCheck(c08RangeSelfMutationExceptions)
	return r
}

// isCompactionCursor: v is a counter that starts at 0 and only ever grows by 1 per store
// (phi [0, v+1, v]) — the write index of an in-place filter.
func isCompactionCursor(v ssa.Value) bool {
	ph, ok := v.(*ssa.Phi)
	if !ok {
		return false
	}
	seen := map[ssa.Value]bool{}
	var okEdge func(e ssa.Value, depth int) bool
	okEdge = func(e ssa.Value, depth int) bool {
		if depth > 6 || seen[e] {
			return true
		}
		seen[e] = true
		switch x := e.(type) {
		case *ssa.Const:
			i, ok := constInt(x)
			return ok && i == 0
		case *ssa.BinOp:
			if x.Op != token.ADD {
				return false
			}
			one, ok := constInt(x.Y)
			return ok && one == 1 && okEdge(x.X, depth+1)
		case *ssa.Phi:
			for _, ee := range x.Edges {
				if !okEdge(ee, depth+1) {
					return false
				}
			}
			return true
		}
		return false
	}
	return okEdge(ph, 0)
}

// excInheritedFromCallers: a function that was split off a function with a reviewed table entry
// inherits the entry when every in-module caller has the entry obtained by substituting the caller's
// name for the function's name in the key. Returns the callers, or "".
func excInheritedFromCallers(p *Prog, table ExcTable, fn *ssa.Function, key string) string {
	name := FuncName(fn)
	if !strings.Contains(key, name) {
		return ""
	}
	n := p.CallGraph().Nodes[fn]
	if n == nil {
		return ""
	}
	seen := map[*ssa.Function]bool{}
	var callers []string
	for _, e := range n.In {
		caller := e.Caller.Func
		if caller == fn || seen[caller] || !p.InModule(caller) {
			continue
		}
		seen[caller] = true
		k2 := strings.Replace(key, name, FuncName(caller), 1)
		if _, ok := table[k2]; !ok {
			// ordinal-free match
			base := c08OrdinalRe.ReplaceAllString(k2, "")
			found := false
			for k := range table {
				if c08OrdinalRe.ReplaceAllString(k, "") == base {
					found = true
				}
			}
			if !found {
				return ""
			}
		}
		callers = append(callers, FuncName(caller))
	}
	if len(callers) == 0 {
		return ""
	}
	sort.Strings(callers)
	return strings.Join(callers, ", ")
}
