package main

import (
	"fmt"
	"go/token"
	"strings"

	"golang.org/x/tools/go/ssa"
)

func init() {
	register(&Property{
		ID:          "C01",
		Explanation: "Decides one clause of C01 that is a shape of the code: 'with the ASCII charset every non-ASCII character of an identifier, string or template is escaped'. R1 ascii-sink: every text that reaches the JS printer's output buffer (p.print / p.printBytes / appends to p.js) is a compile-time constant, comes from an ASCII-by-construction source (operator table, keyword tables, number formatting, lexer-validated digits), is printed under a dominating `!ASCIIOnly` test, goes through one of the escapers, or is one of the documented exceptions (regular-expression bodies, comments, preserved JSX) — anything else is a violation; R2 inside the escapers, UTF-8 encoding of a rune is reachable only through an edge on which ASCIIOnly is false or the rune is known to be ASCII. R3 escape-denotation decides two structural parts of 'every string literal denotes the same value': each constant escape sequence appended in `case K:` of the string escapers (js_printer printUnquotedUTF16, helpers internalQuote) denotes K under the ECMAScript escape grammar, and on the SSA control-flow graph of the NUL case the short form \\0 is unreachable whenever a next code unit exists and is one of '0'..'9' (\\0 followed by a digit is a legacy octal escape). The tagged-template raw text (ETemplate.HeadRaw / TemplatePart.TailRaw) is printed verbatim and is a known finding. R5 indirect-call-target: the bare print of a call target / template tag is reachable only across the originally-a-property-access edge or the not-a-property-access edge (plain calls, optional calls, tagged templates). R6 operator-gluing-unconditional: no condition of printSpaceBeforeOperator, and no condition of the space printed between a preceding `/` and a regular-expression literal, depends on an output option. R7 line-terminator-set-complete: every store of true to Lexer.HasNewlineBefore is entered from tests for LF, CR, U+2028 and U+2029, and every case clause of js_lexer listing CR and LF lists the other two. R8 escaped-identifier-end-is-guarded: every non-identifier byte an escape format of the identifier printers can end with is compared with the last output byte by printSpaceBeforeIdentifier (directly or through a marker every printIdentifier* method sets). R9 dot-after-expression-guarded: the C13/R11 analysis. R10 date-argument-purity-table: finite-domain evaluation of the guards of the Date case over the PrimitiveType enum. NOT covered: everything else in C01 — observable equivalence, parenthesisation, ASI hazards, number and string value round trips.",
		Run: func(p *Prog, tier string) []*RuleResult {
			return []*RuleResult{c01AsciiSink(p), c01EscaperBodies(p), c01EscapeDenotation(p), c01LiteralEquality(p), c01IndirectTarget(p), c01OperatorHazardsUnconditional(p), c01LineTerminators(p), escapedIdentifierEndGuarded(p, "C01/R8 escaped-identifier-end-is-guarded"), dotAfterExpressionGuarded(p, "C01/R9 dot-after-expression-guarded"), dateArgumentPurity(p, "C01/R10 date-argument-purity-table")}
		},
	})
}

// sink classification table: "<func> <arg expr>" -> class and reason
var c01SinkTable = map[string][2]string{
	"js_printer.(*binaryExprVisitor).visitRightAndFinish js_ast.OpTableEntry.Text":                                      {"ascii", "js_ast.OpTable[op].Text: operator spelling from a constant ASCII table"},
	"js_printer.(*printer).printExpr js_ast.OpTableEntry.Text":                                                          {"ascii", "js_ast.OpTable[op].Text: operator spelling from a constant ASCII table"},
	"js_printer.(*printer).printDecls keyword":                                                                          {"ascii", "every caller passes a constant keyword (var/let/const/using/await using); checked below"},
	"js_printer.(*printer).printImportCallAssertOrWith ast.AssertOrWithKeyword).String(ast.ImportAssertOrWith.Keyword)": {"ascii", "keyword table: assert / with"},
	"js_printer.(*printer).printPath ast.AssertOrWithKeyword).String(ast.ImportAssertOrWith.Keyword)":                   {"ascii", "keyword table: assert / with"},
	"js_printer.(*printer).printNonNegativeFloat js_printer.printer).smallIntToBytes(p, int(int64(absValue)))":          {"ascii", "decimal digits of an integer"},
	"js_printer.(*printer).printNonNegativeFloat phi":                                                                   {"ascii", "output of strconv.FormatFloat / hex formatting, possibly shortened: digits, '.', 'e', '+', '-', 'x'"},
	"js_printer.(*printer).printExpr js_ast.EBigInt.Value":                                                              {"ascii", "bigint digits validated by the lexer ([0-9a-fA-FxXoObB_])"},
	"js_printer.(*printer).printExpr phi":                                                                               {"ascii", "bigint digits (possibly with the sign folded in) printed inside BigInt(\"…\") / as a literal"},
	"js_printer.(*printer).printExpr js_ast.ERegExp.Value":                                                              {"regexp", "documented exception: regular-expression literals keep their source text"},
	"js_printer.(*printer).printExpr js_ast.EInlinedEnum.Comment":                                                       {"comment", "inside /* … */ (documented exception: comments)"},
	"js_printer.(*printer).printExpr js_ast.EDot.Name":                                                                  {"comment", "property name echoed inside a /* … */ comment next to an inlined enum value (documented exception: comments); the property access itself goes through printIdentifier/printQuotedUTF16"},
	"js_printer.(*printer).printExpr js_printer.printer).tryToGetImportedEnumValueUTF16(p, .Target, .Value)#1":          {"comment", "enum member name echoed inside a /* … */ comment (documented exception: comments)"},
	"js_printer.(*printer).printExpr js_ast.EJSXText.Raw":                                                               {"jsx", "preserved JSX text (documented exception: JSX syntax has no escapes)"},
	"js_printer.(*printer).printExpr helpers.UTF16ToString(js_ast.EString.Value)":                                       {"jsx", "string-valued JSX attribute name in preserved JSX, inside the EJSXElement case (documented exception)"},
	"js_printer.(*printer).printJSXTag helpers.UTF16ToString(js_ast.EString.Value)":                                     {"jsx", "preserved JSX tag name (documented exception)"},
	"js_printer.(*printer).printJSXTag renamer.Renamer).NameForSymbol(js_ast.EIdentifier.Ref)":                          {"jsx", "preserved JSX tag identifier (documented exception: JSX tags cannot use escapes)"},
	"js_printer.(*printer).printJSXTag js_ast.EDot.Name":                                                                {"jsx", "preserved JSX member tag (documented exception)"},
	"js_printer.(*printer).printExprCommentsAtLoc <*ssa.Slice>":                                                         {"comment", "comment text (documented exception)"},
	"js_printer.(*printer).printExprCommentsAtLoc strings.Join(strings.Split(*<*ssa.IndexAddr>, \"\\n\"), \"\")":        {"comment", "comment text (documented exception)"},
	"js_printer.(*printer).printIndentedComment phi":                                                                    {"comment", "comment text (documented exception)"},
	"js_printer.(*printer).printIndentedComment <*ssa.Slice>":                                                           {"comment", "comment text (documented exception)"},
}

// sinkDesc names the source of a printed value: owner type and field for loaded fields (through
// one conversion call), otherwise the canonical SSA expression.
func sinkDesc(v ssa.Value) string {
	if o, n, ok := loadedField(v); ok {
		return o + "." + n
	}
	if c, ok := v.(*ssa.Call); ok && len(c.Call.Args) == 1 {
		if o, n, ok := loadedField(c.Call.Args[0]); ok {
			name := calleeFullName(c)
			return name[strings.LastIndex(name, "/")+1:] + "(" + o + "." + n + ")"
		}
	}
	return ssaExpr(v, 0)
}

func isPrintSink(c *ssa.Call) bool {
	n := calleeFullName(c)
	return strings.HasSuffix(n, "js_printer.printer).print") || strings.HasSuffix(n, "js_printer.printer).printBytes")
}

func asciiOnlyFalseFact(b *ssa.BasicBlock) bool {
	for _, f := range factsAt(b) {
		if _, n, ok := loadedField(f.Cond); ok && n == "ASCIIOnly" && !f.True {
			return true
		}
	}
	return false
}

func c01AsciiSink(p *Prog) *RuleResult {
	r := NewRule("C01/R1 ascii-sink", "every text reaching the JS printer's buffer is constant ASCII, ASCII by construction, printed under !ASCIIOnly, escaped, or a documented exception")
	used := map[string]bool{}
	nconst, nsinks := 0, 0
	for _, fn := range p.ModuleFuncs() {
		if pkgPathOf(fn) != modPath+"/internal/js_printer" {
			continue
		}
		eachInstr(fn, func(b *ssa.BasicBlock, in ssa.Instruction) {
			c, ok := in.(*ssa.Call)
			if !ok || !isPrintSink(c) {
				return
			}
			nsinks++
			r.Instances++
			arg := c.Call.Args[1]
			if ss, ok := constStrings(arg, 0); ok {
				for _, s := range ss {
					for i := 0; i < len(s); i++ {
						if s[i] >= 0x80 {
							r.Fail(FuncName(fn)+" constant "+fmt.Sprintf("%q", s), p.Pos(c.Pos()), "a non-ASCII constant is printed")
							return
						}
					}
				}
				nconst++
				r.OK(FuncName(fn)+" constant", false, "")
				return
			}
			key := FuncName(fn) + " " + sinkDesc(arg)
			// a string parameter of a printer helper: constant ASCII at every call site of the helper
			if prm, ok := arg.(*ssa.Parameter); ok && fn.Parent() == nil {
				pi := -1
				for i, q := range fn.Params {
					if q == prm {
						pi = i
					}
				}
				sites, allConst := 0, pi >= 0
				for _, caller := range p.ModuleFuncs() {
					eachInstr(caller, func(_ *ssa.BasicBlock, cin ssa.Instruction) {
						cc, ok := cin.(ssa.CallInstruction)
						if !ok || cc.Common().StaticCallee() != fn || pi >= len(cc.Common().Args) {
							return
						}
						sites++
						ss, ok := constStrings(cc.Common().Args[pi], 0)
						if !ok {
							allConst = false
							return
						}
						for _, sv := range ss {
							for i := 0; i < len(sv); i++ {
								if sv[i] >= 0x80 {
									allConst = false
								}
							}
						}
					})
				}
				if allConst && sites > 0 && !p.addressTaken(fn) {
					r.OK(key+" (constant at every call site)", true, fmt.Sprintf("the parameter is a constant ASCII string at all %d call sites of the helper", sites))
					return
				}
				// a printing block split off into a helper: every call site passes what the caller itself
				// would be allowed to print there (constant ASCII, a reviewed source of that caller, or
				// under !ASCIIOnly)
				if pi >= 0 && sites > 0 && !p.addressTaken(fn) {
					allOK := true
					var usedKeys []string
					for _, caller := range p.ModuleFuncs() {
						eachInstr(caller, func(cb *ssa.BasicBlock, cin ssa.Instruction) {
							cc, ok := cin.(ssa.CallInstruction)
							if !ok || cc.Common().StaticCallee() != fn || pi >= len(cc.Common().Args) {
								return
							}
							a := cc.Common().Args[pi]
							if ss, ok := constStrings(a, 0); ok {
								for _, sv := range ss {
									for i := 0; i < len(sv); i++ {
										if sv[i] >= 0x80 {
											allOK = false
										}
									}
								}
								return
							}
							if asciiOnlyFalseFact(cb) {
								return
							}
							ck := FuncName(caller) + " " + sinkDesc(a)
							if _, ok := c01SinkTable[ck]; ok {
								usedKeys = append(usedKeys, ck)
								return
							}
							allOK = false
						})
					}
					if allOK {
						for _, k := range usedKeys {
							used[k] = true
						}
						r.Exceptions++
						r.OK(key+" (reviewed at every call site)", true, fmt.Sprintf("the parameter is constant ASCII, under !ASCIIOnly or a reviewed source of the caller at all %d call sites of the helper", sites))
						return
					}
				}
			}
			if asciiOnlyFalseFact(b) {
				r.OK(key+" (under !ASCIIOnly)", true, "printed only when the charset is not ASCII")
				return
			}
			if cls, ok := c01SinkTable[key]; ok {
				used[key] = true
				r.Exceptions++
				r.Obligations++
				r.Discharged++
				r.Nontrivial[key] = true
				if len(r.Notes) < 40 {
					r.Notes = append(r.Notes, "class "+cls[0]+": "+key+" — "+cls[1])
				}
				return
			}
			r.Fail(key, p.Pos(c.Pos()), "text from "+ssaExpr(arg, 0)+" reaches the output buffer without escaping and is not a reviewed ASCII/exception source: non-ASCII characters would survive charset=ascii")
		})
		// direct appends to p.js outside the escapers and the two sink functions
		eachInstr(fn, func(b *ssa.BasicBlock, in ssa.Instruction) {
			st, ok := in.(*ssa.Store)
			if !ok {
				return
			}
			fa, ok := st.Addr.(*ssa.FieldAddr)
			if !ok || fieldAddrName(fa) != "js" || namedTypeName(fa.X.Type()) != "js_printer.printer" {
				return
			}
			r.Instances++
			top := TopFunc(fn).Name()
			key := FuncName(fn) + " writes p.js"
			switch top {
			case "print", "printBytes":
				r.OK(key+" (sink)", false, "")
			case "printIdentifier", "printIdentifierUTF16", "printUnquotedUTF16", "printQuotedUTF16":
				r.OK(key+" (escaper)", true, "body checked by C01/R2")
			default:
				// truncation / restoring a saved prefix is fine: value is a slice of p.js itself or a saved copy
				v := ssaExpr(st.Val, 0)
				if strings.Contains(v, "QuoteIdentifier") || strings.HasPrefix(v, "<*ssa.Slice>") || strings.Contains(v, ".js") {
					r.OK(key+" (buffer bookkeeping)", false, "")
					return
				}
				if r.CheckExc(c01AppendExceptions, key) {
					return
				}
				r.Fail(key, p.Pos(st.Pos()), "p.js is assigned "+v+" outside the sink and escaper functions")
			}
		})
	}
	r.Note("print sinks: %d, constant: %d", nsinks, nconst)
	// printDecls callers pass constants
	if pd := p.FindFunc("js_printer.(*printer).printDecls"); r.Anchor("js_printer.(*printer).printDecls", pd != nil) {
		for _, e := range p.CallGraph().Nodes[pd].In {
			r.Instances++
			arg := e.Site.Common().Args[1]
			isConst := false
			if _, ok := constStrings(arg, 0); ok {
				isConst = true
			} else if prm, ok := arg.(*ssa.Parameter); ok {
				// forwarding wrapper: all of its callers pass constants
				wf := prm.Parent()
				idx := -1
				for i, fp := range wf.Params {
					if fp == prm {
						idx = i
					}
				}
				if n := p.CallGraph().Nodes[wf]; n != nil && idx >= 0 && len(n.In) > 0 {
					isConst = true
					for _, e2 := range n.In {
						if _, ok := constStrings(e2.Site.Common().Args[idx], 0); !ok {
							isConst = false
						}
					}
				}
			}
			if isConst {
				r.OK("printDecls caller "+FuncName(e.Caller.Func), false, "")
			} else {
				r.Fail("printDecls caller "+FuncName(e.Caller.Func), p.Pos(e.Site.Pos()), "printDecls is given a non-constant keyword")
			}
		}
	}
	// the known finding: raw template text
	var stale []string
	for k := range c01SinkTable {
		if !used[k] {
			stale = append(stale, k)
		}
	}
	r.Stale = stale
	r.Floor(380)
	return r
}

var c01AppendExceptions = ExcTable{}

func c01EscaperBodies(p *Prog) *RuleResult {
	r := NewRule("C01/R2 escaper-bodies", "inside the JS printer, a rune is UTF-8 encoded into the output only on paths where ASCIIOnly is false or the rune was tested to be ASCII")
	n := 0
	for _, fn := range p.ModuleFuncs() {
		if pkgPathOf(fn) != modPath+"/internal/js_printer" {
			continue
		}
		eachInstr(fn, func(b *ssa.BasicBlock, in ssa.Instruction) {
			c, ok := in.(*ssa.Call)
			if !ok {
				return
			}
			name := calleeFullName(c)
			if name != "unicode/utf8.EncodeRune" && name != "unicode/utf8.AppendRune" {
				return
			}
			n++
			r.Instances++
			key := FuncName(fn) + " utf8.EncodeRune"
			runeArg := c.Call.Args[len(c.Call.Args)-1]
			// backward search from the call's block over edges that are not "safe"
			isSafeEdge := func(from *ssa.BasicBlock, si int) bool {
				if len(from.Instrs) == 0 {
					return false
				}
				ifi, ok := from.Instrs[len(from.Instrs)-1].(*ssa.If)
				if !ok {
					return false
				}
				cond := ifi.Cond
				pol := si == 0
				for {
					if u, ok := cond.(*ssa.UnOp); ok && u.Op == token.NOT {
						cond = u.X
						pol = !pol
						continue
					}
					break
				}
				if _, fname, ok := loadedField(cond); ok && fname == "ASCIIOnly" {
					return !pol // the edge on which ASCIIOnly is false
				}
				if bo, ok := cond.(*ssa.BinOp); ok {
					if k, ok := constInt(bo.Y); ok && (k == 0x7F || k == 0x80 || k == 0x7E) {
						switch bo.Op {
						case token.GTR, token.GEQ: // c > 0x7F : false edge is safe
							return !pol
						case token.LEQ, token.LSS: // c <= 0x7F : true edge is safe
							return pol
						}
					}
				}
				return false
			}
			defBlock := (*ssa.BasicBlock)(nil)
			if ri, ok := stripConvert(runeArg).(ssa.Instruction); ok {
				defBlock = ri.Block()
			}
			seen := map[*ssa.BasicBlock]bool{}
			work := []*ssa.BasicBlock{b}
			seen[b] = true
			unguarded := ""
			for len(work) > 0 && unguarded == "" {
				cur := work[len(work)-1]
				work = work[:len(work)-1]
				if cur == fn.Blocks[0] {
					unguarded = "the function entry"
					break
				}
				if cur == defBlock && cur != b {
					unguarded = "the block that computes the rune (" + cur.String() + ")"
					break
				}
				for _, pr := range cur.Preds {
					idx := -1
					for i, s := range pr.Succs {
						if s == cur {
							idx = i
						}
					}
					if isSafeEdge(pr, idx) {
						continue
					}
					if !seen[pr] {
						seen[pr] = true
						work = append(work, pr)
					}
				}
			}
			if unguarded == "" {
				r.OK(key, true, "every way into the encoding block passes an edge with ASCIIOnly == false or rune <= 0x7F")
			} else {
				r.Fail(key, p.Pos(c.Pos()), "a rune can be UTF-8 encoded into the output without a test of ASCIIOnly or of the rune being ASCII (reachable from "+unguarded+")")
			}
		})
	}
	if n < 3 {
		r.Fail("C01/R2 positive-control", "-", fmt.Sprintf("only %d utf8.EncodeRune call sites found in js_printer (expected printUnquotedUTF16 ×2 and printIdentifierUTF16)", n))
	}
	return r
}
