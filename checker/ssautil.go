package main

import (
	"go/constant"
	"go/token"
	"go/types"
	"strings"

	"golang.org/x/tools/go/ssa"
)

// eachInstr calls f for every instruction of fn (not descending into closures).
func eachInstr(fn *ssa.Function, f func(b *ssa.BasicBlock, i ssa.Instruction)) {
	for _, b := range fn.Blocks {
		for _, in := range b.Instrs {
			f(b, in)
		}
	}
}

// withClosures returns fn and all functions nested in it (transitively).
func withClosures(fn *ssa.Function) []*ssa.Function {
	out := []*ssa.Function{fn}
	for _, a := range fn.AnonFuncs {
		out = append(out, withClosures(a)...)
	}
	return out
}

// calleeOf returns the statically resolved callee of a call instruction (function, method or
// closure literal called directly), or nil.
func calleeOf(c ssa.CallInstruction) *ssa.Function {
	cc := c.Common()
	if f := cc.StaticCallee(); f != nil {
		return f
	}
	return nil
}

// calleeFullName returns "pkgpath.Name" or "(pkgpath.Type).Name" for static callees and interface
// method calls ("(iface) pkgpath.Type.Name").
func calleeFullName(c ssa.CallInstruction) string {
	cc := c.Common()
	if cc.IsInvoke() {
		return "invoke " + cc.Method.FullName()
	}
	if f := cc.StaticCallee(); f != nil {
		if f.Object() != nil {
			return f.Object().(*types.Func).FullName()
		}
		return f.String()
	}
	if b, ok := cc.Value.(*ssa.Builtin); ok {
		return "builtin " + b.Name()
	}
	return ""
}

func isCallTo(c ssa.CallInstruction, fullNames ...string) bool {
	n := calleeFullName(c)
	for _, f := range fullNames {
		if n == f {
			return true
		}
	}
	return false
}

// edgeDominates reports whether block target is reachable only via the edge from -> from.Succs[idx].
func edgeDominates(from *ssa.BasicBlock, idx int, target *ssa.BasicBlock) bool {
	if idx >= len(from.Succs) {
		return false
	}
	succ := from.Succs[idx]
	if !succ.Dominates(target) {
		return false
	}
	// every predecessor of succ other than `from` must be dominated by succ (back edges)
	for _, p := range succ.Preds {
		if p == from {
			continue
		}
		if !succ.Dominates(p) {
			return false
		}
	}
	// and from must not reach succ through its other edge trivially (both edges to same block)
	for j, s := range from.Succs {
		if j != idx && s == succ {
			return false
		}
	}
	return true
}

// condFact describes an atomic condition known to hold at a block.
type condFact struct {
	Cond ssa.Value
	True bool // the condition evaluated to true (else false)
}

// factsAt returns the atomic conditions (If conditions with polarity) that dominate block b by edge.
// Short-circuit && / || are already lowered to control flow by go/ssa, so each If cond is atomic
// (possibly a UnOp ! which we unwrap).
func factsAt(b *ssa.BasicBlock) []condFact {
	var out []condFact
	fn := b.Parent()
	for _, d := range fn.Blocks {
		if len(d.Instrs) == 0 {
			continue
		}
		ifi, ok := d.Instrs[len(d.Instrs)-1].(*ssa.If)
		if !ok || !d.Dominates(b) {
			continue
		}
		for idx := 0; idx < 2; idx++ {
			if edgeDominates(d, idx, b) {
				c := ifi.Cond
				pol := idx == 0
				for {
					if u, ok := c.(*ssa.UnOp); ok && u.Op == token.NOT {
						c = u.X
						pol = !pol
						continue
					}
					break
				}
				out = append(out, condFact{c, pol})
			}
		}
	}
	return out
}

// constString returns the constant string value of v, if any.
func constString(v ssa.Value) (string, bool) {
	if c, ok := v.(*ssa.Const); ok && c.Value != nil && c.Value.Kind() == constant.String {
		return constant.StringVal(c.Value), true
	}
	return "", false
}

func constInt(v ssa.Value) (int64, bool) {
	if c, ok := v.(*ssa.Const); ok && c.Value != nil && c.Value.Kind() == constant.Int {
		i, ok := constant.Int64Val(c.Value)
		return i, ok
	}
	return 0, false
}

// namedTypeName returns "pkg.Name" (short package) of a possibly-pointer named type, or "".
func namedTypeName(t types.Type) string {
	if p, ok := t.(*types.Pointer); ok {
		t = p.Elem()
	}
	if n, ok := t.(*types.Named); ok && n.Obj().Pkg() != nil {
		return shortPkg(n.Obj().Pkg().Path()) + "." + n.Obj().Name()
	}
	return ""
}

func typePkgPath(t types.Type) string {
	if p, ok := t.(*types.Pointer); ok {
		t = p.Elem()
	}
	if n, ok := t.(*types.Named); ok && n.Obj().Pkg() != nil {
		return n.Obj().Pkg().Path()
	}
	return ""
}

// fieldName returns the name of the field addressed by a FieldAddr/Field instruction.
func fieldAddrName(fa *ssa.FieldAddr) string {
	st := structOf(fa.X.Type())
	if st == nil {
		return "?"
	}
	return st.Field(fa.Field).Name()
}

func fieldValName(f *ssa.Field) string {
	st := structOf(f.X.Type())
	if st == nil {
		return "?"
	}
	return st.Field(f.Field).Name()
}

// accessPath renders the address chain of a value as Type.Field[...] for diagnostics and keys:
// the chain of FieldAddr/IndexAddr/Field/Index/UnOp(*) steps back to its root.
type pathStep struct {
	Kind  string // field, index, deref, lookup, assert, slice, root
	Name  string // field name
	Owner string // owner type (short) for field steps
	Val   ssa.Value
}

func addrChain(v ssa.Value) []pathStep {
	var steps []pathStep
	seen := 0
	for v != nil && seen < 64 {
		seen++
		switch x := v.(type) {
		case *ssa.FieldAddr:
			steps = append(steps, pathStep{"field", fieldAddrName(x), namedTypeName(x.X.Type()), x})
			v = x.X
		case *ssa.Field:
			steps = append(steps, pathStep{"field", fieldValName(x), namedTypeName(x.X.Type()), x})
			v = x.X
		case *ssa.IndexAddr:
			steps = append(steps, pathStep{"index", "", "", x})
			v = x.X
		case *ssa.Index:
			steps = append(steps, pathStep{"index", "", "", x})
			v = x.X
		case *ssa.Lookup:
			steps = append(steps, pathStep{"lookup", "", "", x})
			v = x.X
		case *ssa.UnOp:
			if x.Op == token.MUL {
				if al, ok := x.X.(*ssa.Alloc); ok {
					// load of a local variable cell: follow the unique stored value, if any
					if sv := uniqueStoreTo(al); sv != nil {
						v = sv
						continue
					}
					steps = append(steps, pathStep{"root", "", "", x})
					v = nil
					continue
				}
				if _, ok := x.X.(*ssa.FreeVar); ok {
					// load of a captured variable cell
					steps = append(steps, pathStep{"root", "", "", x})
					v = nil
					continue
				}
				steps = append(steps, pathStep{"deref", "", "", x})
				v = x.X
			} else {
				steps = append(steps, pathStep{"root", "", "", x})
				v = nil
			}
		case *ssa.Slice:
			steps = append(steps, pathStep{"slice", "", "", x})
			v = x.X
		case *ssa.TypeAssert:
			steps = append(steps, pathStep{"assert", namedTypeName(x.AssertedType), "", x})
			v = x.X
		case *ssa.Extract:
			steps = append(steps, pathStep{"extract", "", "", x})
			v = x.Tuple
		case *ssa.ChangeType:
			v = x.X
		case *ssa.MakeInterface:
			v = x.X
		default:
			steps = append(steps, pathStep{"root", "", "", x})
			v = nil
		}
	}
	return steps
}

// uniqueStoreTo returns the single value stored into a local variable cell, or nil when the cell
// is captured by a closure, has its address escaping, or is stored more than once.
func uniqueStoreTo(al *ssa.Alloc) ssa.Value {
	refs := al.Referrers()
	if refs == nil {
		return nil
	}
	var val ssa.Value
	for _, r := range *refs {
		switch x := r.(type) {
		case *ssa.Store:
			if x.Addr == al {
				if val != nil {
					return nil
				}
				val = x.Val
			} else {
				return nil // address stored somewhere
			}
		case *ssa.UnOp:
			// load
		case *ssa.DebugRef:
		case *ssa.MakeClosure:
			// captured by a closure: fine as long as the closures never store to it
			vals, ok := storesToCell(al)
			if !ok || len(vals) != 1 {
				return nil
			}
		default:
			return nil
		}
	}
	return val
}

// pathString renders a chain root-first, e.g. "js_ast.AST.Parts[].js_ast.Part.Stmts".
func pathString(steps []pathStep) string {
	var sb strings.Builder
	for i := len(steps) - 1; i >= 0; i-- {
		s := steps[i]
		switch s.Kind {
		case "field":
			if sb.Len() > 0 {
				sb.WriteString(".")
			}
			sb.WriteString(s.Owner + "." + s.Name)
		case "index":
			sb.WriteString("[]")
		case "lookup":
			sb.WriteString("[k]")
		case "assert":
			sb.WriteString(".(" + s.Name + ")")
		}
	}
	return sb.String()
}

func rootOfChain(steps []pathStep) ssa.Value {
	if len(steps) == 0 {
		return nil
	}
	return steps[len(steps)-1].Val
}

// reachableFrom computes the set of functions reachable from roots in the call graph.
func (p *Prog) reachableFrom(roots []*ssa.Function, stop func(*ssa.Function) bool) map[*ssa.Function]*ssa.Function {
	cg := p.CallGraph()
	parent := map[*ssa.Function]*ssa.Function{}
	var work []*ssa.Function
	for _, r := range roots {
		if r == nil {
			continue
		}
		if _, ok := parent[r]; !ok {
			parent[r] = nil
			work = append(work, r)
		}
	}
	for len(work) > 0 {
		fn := work[len(work)-1]
		work = work[:len(work)-1]
		if stop != nil && stop(fn) {
			continue
		}
		n := cg.Nodes[fn]
		if n != nil {
			for _, e := range n.Out {
				c := e.Callee.Func
				if _, ok := parent[c]; !ok {
					parent[c] = fn
					work = append(work, c)
				}
			}
		}
		// closures created inside fn are considered reachable (they may be called later)
		for _, a := range fn.AnonFuncs {
			if _, ok := parent[a]; !ok {
				parent[a] = fn
				work = append(work, a)
			}
		}
	}
	return parent
}

func chainTo(parent map[*ssa.Function]*ssa.Function, fn *ssa.Function) string {
	var names []string
	for f := fn; f != nil; f = parent[f] {
		names = append(names, FuncName(f))
		if len(names) > 12 {
			names = append(names, "…")
			break
		}
	}
	// reverse
	for i, j := 0, len(names)-1; i < j; i, j = i+1, j-1 {
		names[i], names[j] = names[j], names[i]
	}
	return strings.Join(names, " → ")
}

func constInt64(c *types.Const) (int64, bool) {
	if c.Val().Kind() != constant.Int {
		return 0, false
	}
	return constant.Int64Val(c.Val())
}

// backSlice visits the intraprocedural backward data slice of v: operands of value-producing
// instructions, loads followed to their address chains (not to stores into them). visit returns
// false to stop descending below a value.
func backSlice(v ssa.Value, visit func(ssa.Value) bool) {
	seen := map[ssa.Value]bool{}
	var walk func(v ssa.Value, depth int)
	walk = func(v ssa.Value, depth int) {
		if v == nil || seen[v] || depth > 40 {
			return
		}
		seen[v] = true
		if !visit(v) {
			return
		}
		in, ok := v.(ssa.Instruction)
		if !ok {
			return
		}
		// a local array/struct cell (e.g. the varargs array of append): follow what is stored into it
		if al, ok := v.(*ssa.Alloc); ok && al.Referrers() != nil {
			for _, rf := range *al.Referrers() {
				switch x := rf.(type) {
				case *ssa.Store:
					if x.Addr == al {
						walk(x.Val, depth+1)
					}
				case *ssa.IndexAddr, *ssa.FieldAddr:
					if refs := x.(ssa.Value).Referrers(); refs != nil {
						for _, rr := range *refs {
							if st, ok := rr.(*ssa.Store); ok && st.Addr == x.(ssa.Value) {
								walk(st.Val, depth+1)
							}
						}
					}
				}
			}
		}
		var ops []*ssa.Value
		for _, op := range in.Operands(ops) {
			if op != nil && *op != nil {
				walk(*op, depth+1)
			}
		}
	}
	walk(v, 0)
}

func unstableIndexField(owner, name string) bool {
	if ln := strings.ToLower(name); ln == "sourceindex" || ln == "copysourceindex" || ln == "othersourceindex" {
		return true
	}
	if owner == "logger.Source" && name == "Index" {
		return true
	}
	return false
}

// addressTaken: fn is used as a value somewhere in the module (stored, passed, bound as a method
// value) rather than only called statically; its call sites are then not all known.
func (p *Prog) addressTaken(fn *ssa.Function) bool {
	if p.addrTaken == nil {
		p.addrTaken = map[*ssa.Function]bool{}
		for _, f := range p.ModuleFuncs() {
			eachInstr(f, func(_ *ssa.BasicBlock, in ssa.Instruction) {
				var ops []*ssa.Value
				for _, op := range in.Operands(ops) {
					if op == nil || *op == nil {
						continue
					}
					g, ok := (*op).(*ssa.Function)
					if !ok {
						continue
					}
					if c, isCall := in.(ssa.CallInstruction); isCall && c.Common().Value == ssa.Value(g) {
						// the callee position of a static call
						isArg := false
						for _, a := range c.Common().Args {
							if a == ssa.Value(g) {
								isArg = true
							}
						}
						if !isArg {
							continue
						}
					}
					p.addrTaken[g] = true
				}
			})
		}
	}
	return p.addrTaken[fn]
}
