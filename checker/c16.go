package main

import (
	"fmt"
	"go/ast"
	"go/types"
	"os"
	"sort"
	"strings"

	"golang.org/x/tools/go/packages"
	"golang.org/x/tools/go/ssa"
)

func init() {
	register(&Property{
		ID:          "C16",
		Explanation: "R5: the source and name indices that ParseSourceMap stores into a Mapping (and that every consumer later uses to index the sources/names arrays unchecked) are, up to conversions, exactly the SSA values whose two range tests are known false where they are stored; arithmetic applied after the checks is reported. Decides four hazards the code manages by convention (necessary conditions of 'no crash, hang or internal error', not termination or absence of index/nil panics): R1 the typed lexer panic (js_lexer.LexerPanic) can propagate only to functions of js_lexer/js_parser and is recovered by every entry point other packages call; R2 every type switch / enum switch whose default arm panics and that dispatches over a whole sealed node family (printExpr, printStmt, visitExprInOut, printRule, ...) has a case for every implementer/constant, or a reviewed reason why that kind cannot reach it; R3 parseFile sends exactly one result on every path (including the recover path), and every goroutine that signals a WaitGroup does so on every path; R4 the file-handle semaphore (BeforeFileOpen/AfterFileClose) is released on every exit. R10 shared-ast-immutability: the C09/R2 frozen-AST analysis (no symbol ref of one link stored into memory that outlives it). R11 keyed-callback-lists-refiltered: slices whose elements are keys of unchecked map-lookup calls are reset or filtered against the new value after every store of the map's container. R12 inject-before-results: in parseFile no send on inject is reachable after a send on results. R13 indent-is-minimum-over-all-lines: the non-counter update of the slice low bound in CommentTextWithoutIndent is control dependent only on the comparison with the running value. R14 no-must-compile-on-computed-pattern: regexp.MustCompile only with constant arguments. NOT covered: loop termination, recursion depth, index/nil safety on malformed input, unreachability of panic(\"Internal error\") sites.",
		Run: func(p *Prog, tier string) []*RuleResult {
			return []*RuleResult{c16PanicContainment(p), c16DefaultExhaustive(p), c16ExactlyOnce(p), c16AcquireRelease(p), c16CheckedIndex(p), c16MarkBeforeRecurse(p), c16PrefixSuffixOverlap(p), c16UnrepresentableNames(p), c16SeparatorFollowed(p), renamed(c09Frozen(p), "C16/R10 shared-ast-immutability", "symbol references written into a cached AST outlive the link that generated the symbols; a later build prints them against its own symbol table and panics with an index out of range (same analysis as C09/R2)"), c16KeyedCallbackLists(p), injectBeforeResults(p, "C16/R12 inject-before-results"), c16IndentMinimumOverAll(p), c16NoMustCompileComputed(p)}
		},
	})
}

func isLexerPanic(pn *ssa.Panic) bool {
	if mi, ok := pn.X.(*ssa.MakeInterface); ok {
		return namedTypeName(mi.X.Type()) == "js_lexer.LexerPanic"
	}
	return false
}

// recoversLexerPanic: fn defers a closure that calls recover() and asserts the value to LexerPanic.
func recoversLexerPanic(fn *ssa.Function) bool {
	found := false
	eachInstr(fn, func(b *ssa.BasicBlock, in ssa.Instruction) {
		d, ok := in.(*ssa.Defer)
		if !ok {
			return
		}
		var clo *ssa.Function
		if mc, ok := d.Call.Value.(*ssa.MakeClosure); ok {
			clo, _ = mc.Fn.(*ssa.Function)
		} else if f := d.Call.StaticCallee(); f != nil {
			clo = f
		}
		if clo == nil {
			return
		}
		hasRecover, hasAssert := false, false
		eachInstr(clo, func(_ *ssa.BasicBlock, in2 ssa.Instruction) {
			if c, ok := in2.(*ssa.Call); ok {
				if bi, ok := c.Call.Value.(*ssa.Builtin); ok && bi.Name() == "recover" {
					hasRecover = true
				}
			}
			if ta, ok := in2.(*ssa.TypeAssert); ok && namedTypeName(ta.AssertedType) == "js_lexer.LexerPanic" {
				hasAssert = true
			}
		})
		if hasRecover && hasAssert {
			found = true
		}
	})
	return found
}

func c16PanicContainment(p *Prog) *RuleResult {
	r := NewRule("C16/R1 typed-panic-containment", "js_lexer.LexerPanic cannot propagate out of js_lexer/js_parser: every function of another package that can reach a panic site does so through a recovering entry point")
	cg := p.CallGraph()
	sites := 0
	prop := map[*ssa.Function]*ssa.Function{} // function -> callee through which the panic propagates
	var work []*ssa.Function
	catchers := map[*ssa.Function]bool{}
	for _, fn := range p.ModuleFuncs() {
		if recoversLexerPanic(fn) {
			catchers[fn] = true
		}
	}
	for _, fn := range p.ModuleFuncs() {
		eachInstr(fn, func(b *ssa.BasicBlock, in ssa.Instruction) {
			if pn, ok := in.(*ssa.Panic); ok && isLexerPanic(pn) {
				sites++
				if _, ok := prop[fn]; !ok && !catchers[fn] {
					prop[fn] = nil
					work = append(work, fn)
				}
			}
		})
	}
	r.Note("LexerPanic sites: %d, recovering functions: %d", sites, len(catchers))
	if !r.Anchor("LexerPanic sites >= 10", sites >= 10) || !r.Anchor("recovering functions >= 5", len(catchers) >= 5) {
		return r
	}
	for len(work) > 0 {
		f := work[len(work)-1]
		work = work[:len(work)-1]
		// a closure's panic propagates to whoever calls the closure; callers come from the call graph
		n := cg.Nodes[f]
		if n == nil {
			continue
		}
		for _, e := range n.In {
			c := e.Caller.Func
			if _, isGo := e.Site.(*ssa.Go); isGo {
				continue // a panic in a goroutine does not propagate to the spawner (handled by R3 for parseFile)
			}
			if _, isDefer := e.Site.(*ssa.Defer); isDefer {
				// deferred closures run during unwinding of c
			}
			if catchers[c] {
				continue
			}
			if _, seen := prop[c]; !seen {
				prop[c] = f
				work = append(work, c)
			}
		}
	}
	// obligation per function outside the two packages
	inner := map[string]bool{modPath + "/internal/js_lexer": true, modPath + "/internal/js_parser": true}
	nIn := 0
	var outside []*ssa.Function
	for f := range prop {
		if !p.InModule(f) {
			continue
		}
		if inner[pkgPathOf(f)] {
			nIn++
			continue
		}
		outside = append(outside, f)
	}
	sort.Slice(outside, func(i, j int) bool { return FuncName(outside[i]) < FuncName(outside[j]) })
	r.Instances += nIn
	r.OK("propagation set inside js_lexer/js_parser", true, fmt.Sprintf("%d functions of the two packages can propagate a LexerPanic; all their external callers are checked", nIn))
	for _, f := range outside {
		r.Instances++
		chain := FuncName(f)
		for g := prop[f]; g != nil; g = prop[g] {
			chain += " → " + FuncName(g)
			if len(chain) > 600 {
				break
			}
		}
		r.Fail(FuncName(f)+" may receive a LexerPanic", p.Pos(f.Pos()), "a lexer panic can unwind into this function without passing a recovering parser entry point: "+chain)
	}
	// every exported function/method of js_parser that other packages call must not be in prop
	for _, fn := range p.ModuleFuncs() {
		if !inner[pkgPathOf(fn)] || fn.Parent() != nil || fn.Object() == nil || !fn.Object().Exported() {
			continue
		}
		n := cg.Nodes[fn]
		if n == nil {
			continue
		}
		calledOutside := false
		for _, e := range n.In {
			if !inner[pkgPathOf(e.Caller.Func)] && p.InModule(e.Caller.Func) {
				calledOutside = true
			}
		}
		if !calledOutside {
			continue
		}
		r.Instances++
		if _, bad := prop[fn]; bad {
			r.Fail("entry point "+FuncName(fn), p.Pos(fn.Pos()), "exported entry point called from other packages can propagate a LexerPanic")
		} else {
			r.OK("entry point "+FuncName(fn), catchers[fn], "recovers LexerPanic or cannot reach a panic site")
		}
	}
	r.Floor(20)
	return r
}

// ---------------------------------------------------------------------------------------------
// R2 panicking defaults

var c16DefaultExceptions = ExcTable{
	"js_parser.(*parser).visitAndAppendStmt switch over js_ast.S: SLazyExport":         "created only by js_parser.LazyExportAST for data loaders, whose AST is never visited",
	"js_parser.(*parser).visitExprInOut switch over js_ast.E: EAnnotation":             "created only by the visit pass itself (wrapping a visited call), never by the parse pass",
	"js_parser.(*parser).visitExprInOut switch over js_ast.E: EImportIdentifier":       "created only by the visit pass (handleIdentifier) from EIdentifier",
	"js_parser.(*parser).visitExprInOut switch over js_ast.E: EImportString":           "created only by the visit pass from EImportCall with a string argument",
	"js_parser.(*parser).visitExprInOut switch over js_ast.E: EInlinedEnum":            "created only by the visit pass when inlining enum values",
	"js_parser.(*parser).visitExprInOut switch over js_ast.E: EMissing":                "array holes: the EArray case inspects its items and never visits an EMissing item",
	"js_parser.(*parser).visitExprInOut switch over js_ast.E: EPrivateIdentifier":      "only the left operand of `#x in y` (handled in the binary visitor before visiting operands) and class member keys (handled by the class visitor)",
	"js_parser.(*parser).visitExprInOut switch over js_ast.E: ERequireResolveString":   "created only by the visit pass from require.resolve(\"...\")",
	"js_parser.(*parser).visitExprInOut switch over js_ast.E: ERequireString":          "created only by the visit pass from require(\"...\")",
	"css_printer.(*printer).printMediaQuery switch over css_ast.MQ: MQArbitraryTokens": "handled by a type assertion right before the switch",
	"js_printer.(*printer).printExpr switch over js_ast.E: EJSXText":                   "only a child/attribute of EJSXElement, printed inline by the EJSXElement case in preserve mode and converted to EString otherwise",
	"js_printer.(*printer).printExpr switch over js_ast.E: EPrivateIdentifier":         "printed by the callers that can hold one: EIndex with a private name, `#x in y` in printBinary, class/property keys",
	"js_printer.(*printer).printStmt switch over js_ast.S: SEnum":                      "TypeScript-only statement, always lowered by the visit pass before printing",
	"js_printer.(*printer).printStmt switch over js_ast.S: SExportEquals":              "TypeScript-only statement, always lowered by the visit pass before printing",
	"js_printer.(*printer).printStmt switch over js_ast.S: SLazyExport":                "replaced by the linker (generateCodeForLazyExport) before any file is printed",
	"js_printer.(*printer).printStmt switch over js_ast.S: SNamespace":                 "TypeScript-only statement, always lowered by the visit pass before printing",
	"js_printer.(*printer).printStmt switch over js_ast.S: STypeScript":                "TypeScript-only statement, always removed by the visit pass before printing",
	"pkg/api.resolveKindToImportKind switch over pkg/api.ResolveKind: ResolveNone":     "zero value meaning 'not set'; validated earlier (Resolve() rejects a missing kind)",
	"cmd/esbuild.resolveKindToString switch over pkg/api.ResolveKind: ResolveNone":     "zero value meaning 'not set'; callbacks always receive a concrete kind from the bundler",
}

func clausePanics(cc *ast.CaseClause) bool {
	for _, s := range cc.Body {
		if es, ok := s.(*ast.ExprStmt); ok {
			if call, ok := es.X.(*ast.CallExpr); ok {
				if id, ok := call.Fun.(*ast.Ident); ok && id.Name == "panic" {
					return true
				}
			}
		}
	}
	return false
}

func implementersOf(pk *packages.Package, iface *types.Interface) []string {
	var out []string
	for _, n := range pk.Types.Scope().Names() {
		tn, ok := pk.Types.Scope().Lookup(n).(*types.TypeName)
		if !ok || tn.IsAlias() {
			continue
		}
		if _, isIface := tn.Type().Underlying().(*types.Interface); isIface {
			continue
		}
		if types.Implements(types.NewPointer(tn.Type()), iface) || types.Implements(tn.Type(), iface) {
			out = append(out, n)
		}
	}
	sort.Strings(out)
	return out
}

func c16DefaultExhaustive(p *Prog) *RuleResult {
	r := NewRule("C16/R2 panicking-default-exhaustive", "a switch whose default arm panics asserts that nothing else can arrive: whole-family dispatchers must name every implementer of the sealed interface / every constant of the enum")
	dump := os.Getenv("VERIF_DUMP") != ""
	for _, pk := range p.Pkgs {
		if !strings.HasPrefix(pk.PkgPath, modPath) {
			continue
		}
		for _, file := range pk.Syntax {
			for _, d := range file.Decls {
				fd, ok := d.(*ast.FuncDecl)
				if !ok || fd.Body == nil {
					continue
				}
				fname := declName(p, pk.PkgPath, fd)
				ast.Inspect(fd.Body, func(n ast.Node) bool {
					switch sw := n.(type) {
					case *ast.TypeSwitchStmt:
						var def *ast.CaseClause
						cases := map[string]bool{}
						for _, c := range sw.Body.List {
							cc := c.(*ast.CaseClause)
							if cc.List == nil {
								def = cc
								continue
							}
							for _, e := range cc.List {
								t := pk.TypesInfo.TypeOf(e)
								if t != nil {
									if pt, ok := t.(*types.Pointer); ok {
										t = pt.Elem()
									}
									if nt, ok := t.(*types.Named); ok {
										cases[nt.Obj().Name()] = true
									}
								}
							}
						}
						if def == nil || !clausePanics(def) {
							return true
						}
						// the switched interface
						var tagExpr ast.Expr
						switch a := sw.Assign.(type) {
						case *ast.AssignStmt:
							tagExpr = a.Rhs[0].(*ast.TypeAssertExpr).X
						case *ast.ExprStmt:
							tagExpr = a.X.(*ast.TypeAssertExpr).X
						}
						it := pk.TypesInfo.TypeOf(tagExpr)
						nt, ok := it.(*types.Named)
						if !ok {
							return true
						}
						iface, ok := nt.Underlying().(*types.Interface)
						if !ok || nt.Obj().Pkg() == nil {
							return true
						}
						ipk := p.ByPath[nt.Obj().Pkg().Path()]
						if ipk == nil {
							return true
						}
						impls := implementersOf(ipk, iface)
						famName := shortPkg(nt.Obj().Pkg().Path()) + "." + nt.Obj().Name()
						if len(cases)*2 < len(impls) {
							r.Instances++
							r.OK(fmt.Sprintf("%s switch over %s (narrow: %d of %d)", fname, famName, len(cases), len(impls)), false, "")
							return true
						}
						for _, im := range impls {
							r.Instances++
							key := fmt.Sprintf("%s switch over %s: %s", fname, famName, im)
							if cases[im] {
								r.OK(key, true, "has a case")
								continue
							}
							if dump {
								fmt.Printf("MISSING %s\n", key)
							}
							if !r.CheckExc(c16DefaultExceptions, key) {
								r.Fail(key, p.Pos(sw.Pos()), fmt.Sprintf("%s implements %s but the whole-family switch in %s has no case for it and its default panics", im, famName, fname))
							}
						}
					case *ast.SwitchStmt:
						if sw.Tag == nil {
							return true
						}
						t := pk.TypesInfo.TypeOf(sw.Tag)
						nt, ok := t.(*types.Named)
						if !ok || nt.Obj().Pkg() == nil || !strings.HasPrefix(nt.Obj().Pkg().Path(), modPath) {
							return true
						}
						if b, ok := nt.Underlying().(*types.Basic); !ok || b.Info()&types.IsInteger == 0 {
							return true
						}
						var def *ast.CaseClause
						caseVals := map[int64]bool{}
						for _, c := range sw.Body.List {
							cc := c.(*ast.CaseClause)
							if cc.List == nil {
								def = cc
								continue
							}
							for _, e := range cc.List {
								if tv, ok := pk.TypesInfo.Types[e]; ok && tv.Value != nil {
									if v, ok := constInt64FromValue(tv); ok {
										caseVals[v] = true
									}
								}
							}
						}
						if def == nil || !clausePanics(def) {
							return true
						}
						tpk := p.ByPath[nt.Obj().Pkg().Path()]
						if tpk == nil {
							return true
						}
						consts := constsOfType(tpk.Types, nt.Obj().Name())
						if len(consts) < 2 {
							return true
						}
						famName := shortPkg(nt.Obj().Pkg().Path()) + "." + nt.Obj().Name()
						if len(caseVals)*2 < len(consts) {
							r.Instances++
							r.OK(fmt.Sprintf("%s switch over %s (narrow: %d of %d)", fname, famName, len(caseVals), len(consts)), false, "")
							return true
						}
						var names []string
						for n := range consts {
							names = append(names, n)
						}
						sort.Strings(names)
						for _, n := range names {
							r.Instances++
							key := fmt.Sprintf("%s switch over %s: %s", fname, famName, n)
							if caseVals[consts[n]] {
								r.OK(key, true, "has a case")
								continue
							}
							if dump {
								fmt.Printf("MISSING %s\n", key)
							}
							if !r.CheckExc(c16DefaultExceptions, key) {
								r.Fail(key, p.Pos(sw.Pos()), fmt.Sprintf("constant %s of %s has no case in %s and the default panics", n, famName, fname))
							}
						}
					}
					return true
				})
			}
		}
	}
	r.Floor(150)
	r.StaleCheck(c16DefaultExceptions)
	return r
}

func constInt64FromValue(tv types.TypeAndValue) (int64, bool) {
	if tv.Value == nil {
		return 0, false
	}
	s := tv.Value.ExactString()
	var v int64
	_, err := fmt.Sscanf(s, "%d", &v)
	return v, err == nil
}

var c16OnceExceptions = ExcTable{
	"cmd/esbuild.runService$1 Done on every path": "the single packet-writer loop: each Done() pairs with the Add(1) made by sendPacket for that packet, not with the goroutine's lifetime; the loop ends only when the channel is closed at process exit",
}

func c16ExactlyOnce(p *Prog) *RuleResult {
	r := NewRule("C16/R3 exactly-once-completion", "parseFile delivers exactly one result on every path (the recover path included); every goroutine that signals a WaitGroup calls Done() on every path or defers it")
	pf := p.FindFunc("bundler.parseFile")
	if r.Anchor("bundler.parseFile", pf != nil) {
		isResultSend := func(in ssa.Instruction) int {
			if s, ok := in.(*ssa.Send); ok {
				if _, n, ok := loadedField(s.Chan); ok && n == "results" {
					return 1
				}
			}
			return 0
		}
		counts := pathCounts(pf, isResultSend)
		n := 0
		for _, b := range pf.Blocks {
			if !isReturnBlock(b) || b == pf.Recover {
				continue
			}
			n++
			r.Instances++
			c := counts[b]
			if c.min == 1 && c.max == 1 {
				r.OK(fmt.Sprintf("parseFile return #%d sends exactly one result", n), true, "min = max = 1 sends on args.results over all paths to this return")
			} else {
				r.Fail("parseFile result sends", p.Pos(b.Instrs[len(b.Instrs)-1].Pos()), fmt.Sprintf("a path to this return sends between %d and %d results: the scan loop would hang (0) or a later receive would get a stale result (2)", c.min, c.max))
			}
		}
		// the recover closure sends exactly once when it recovered something, and not otherwise
		var rec *ssa.Function
		for _, a := range pf.AnonFuncs {
			eachInstr(a, func(_ *ssa.BasicBlock, in ssa.Instruction) {
				if c, ok := in.(*ssa.Call); ok {
					if bi, ok := c.Call.Value.(*ssa.Builtin); ok && bi.Name() == "recover" {
						rec = a
					}
				}
			})
		}
		r.Instances++
		if rec == nil {
			r.Fail("parseFile recover closure", p.Pos(pf.Pos()), "parseFile no longer recovers panics: a panicking parser would crash the process instead of reporting an error")
		} else {
			counts := pathCounts(rec, isResultSend)
			okMax, sawOne := true, false
			for _, b := range rec.Blocks {
				if isReturnBlock(b) {
					c := counts[b]
					if c.max > 1 {
						okMax = false
					}
					if c.max == 1 {
						sawOne = true
					}
				}
			}
			if okMax && sawOne {
				r.OK("parseFile recover closure sends the result once", true, "the recovered-panic path sends one result; the no-panic path sends none")
			} else {
				r.Fail("parseFile recover closure sends the result once", p.Pos(rec.Pos()), "the recover path does not send exactly one result")
			}
		}
	}
	// goroutines that call WaitGroup.Done
	for _, g := range goSites(p) {
		if g.callee == nil {
			continue
		}
		var dones []ssa.CallInstruction
		deferred := false
		eachInstr(g.callee, func(_ *ssa.BasicBlock, in ssa.Instruction) {
			c, ok := in.(ssa.CallInstruction)
			if !ok {
				return
			}
			n := calleeFullName(c)
			if n == "(*sync.WaitGroup).Done" || strings.HasSuffix(n, "ThreadSafeWaitGroup).Done") {
				dones = append(dones, c)
				if _, isD := c.(*ssa.Defer); isD {
					deferred = true
				}
			}
		})
		if len(dones) == 0 {
			continue
		}
		r.Instances++
		key := FuncName(g.callee) + " Done on every path"
		if r.CheckExc(c16OnceExceptions, key) {
			continue
		}
		if deferred {
			r.OK(key, true, "deferred")
			continue
		}
		blocks := map[*ssa.BasicBlock]bool{}
		for _, d := range dones {
			blocks[d.Block()] = true
		}
		if path, bad := reachesExitAvoiding(g.callee.Blocks[0], isReturnBlock, func(b *ssa.BasicBlock) bool { return blocks[b] }, false); bad {
			r.Fail(key, p.Pos(g.callee.Pos()), "a path of the goroutine returns without Done(): the waiter hangs ("+blockPath(path)+")")
		} else {
			r.OK(key, true, "every path to a return passes Done()")
		}
	}
	r.Floor(10)
	r.StaleCheck(c16OnceExceptions)
	return r
}

func c16AcquireRelease(p *Prog) *RuleResult {
	r := NewRule("C16/R4 acquire-release", "every fs.BeforeFileOpen() is followed by fs.AfterFileClose() on every exit (a leaked slot of the 32-entry semaphore eventually blocks every later build)")
	before := modPath + "/internal/fs.BeforeFileOpen"
	after := modPath + "/internal/fs.AfterFileClose"
	for _, fn := range p.ModuleFuncs() {
		var acq []ssa.CallInstruction
		rel := map[*ssa.BasicBlock]bool{}
		deferred := false
		eachInstr(fn, func(b *ssa.BasicBlock, in ssa.Instruction) {
			c, ok := in.(ssa.CallInstruction)
			if !ok {
				return
			}
			switch calleeFullName(c) {
			case before:
				acq = append(acq, c)
			case after:
				if _, isD := c.(*ssa.Defer); isD {
					deferred = true
				} else {
					rel[b] = true
				}
			}
		})
		for _, a := range acq {
			r.Instances++
			key := FuncName(fn) + " BeforeFileOpen/AfterFileClose"
			if deferred {
				r.OK(key, true, "AfterFileClose is deferred")
				continue
			}
			ab := a.Block()
			// release later in the same block?
			sameBlock := false
			for _, in := range ab.Instrs[instrIndex(ab, a.(ssa.Instruction))+1:] {
				if c, ok := in.(ssa.CallInstruction); ok && calleeFullName(c) == after {
					sameBlock = true
				}
			}
			if sameBlock {
				r.OK(key, true, "released in the same block")
				continue
			}
			if path, bad := reachesExitAvoiding(ab, func(b *ssa.BasicBlock) bool { return isReturnBlock(b) || isPanicBlock(b) }, func(b *ssa.BasicBlock) bool { return rel[b] }, true); bad {
				r.Fail(key, p.Pos(a.Pos()), "a path exits without AfterFileClose(): "+blockPath(path))
			} else {
				r.OK(key, true, "every path to an exit passes AfterFileClose()")
			}
		}
	}
	r.Floor(8)
	return r
}
