package main

import (
	"fmt"
	"go/token"
	"sort"
	"strings"

	"golang.org/x/tools/go/ssa"
)

// ---------------------------------------------------------------------------------------------
// C20/R11 (= C16/R12) inject-before-results.
//
// The scanner waits for all injected files (a wait group released by goroutines that read each
// file's `inject` channel) *before* it starts receiving from the unbuffered results channel. A parse
// goroutine that sends on `results` first blocks for ever, never sends on `inject`, and the build —
// and with it every later Rebuild, Cancel and Dispose of the context — never returns. Rule: in
// parseFile no send on the inject channel is reachable after a send on the results channel.
func injectBeforeResults(p *Prog, rule string) *RuleResult {
	r := NewRule(rule, "in parseFile the (optional) send on the inject channel never comes after the send on the results channel")
	fn := p.FindFunc("bundler.parseFile")
	if !r.Anchor("bundler.parseFile", fn != nil) {
		return r
	}
	chanField := func(v ssa.Value) string {
		if _, n, ok := loadedField(v); ok {
			return n
		}
		return ""
	}
	n := 0
	for _, f := range withClosures(fn) {
		eachInstr(f, func(b *ssa.BasicBlock, in ssa.Instruction) {
			s, ok := in.(*ssa.Send)
			if !ok || chanField(s.Chan) != "results" {
				return
			}
			n++
			r.Instances++
			key := fmt.Sprintf("parseFile send on results #%d is the last send", n)
			bad := ""
			for _, later := range instrsAfter(s) {
				if s2, ok := later.(*ssa.Send); ok && chanField(s2.Chan) == "inject" {
					bad = p.Pos(s2.Pos())
				}
			}
			if bad == "" {
				r.OK(key, true, "no send on inject is reachable afterwards")
			} else {
				r.Fail(key, p.Pos(s.Pos()), "a send on the inject channel (at "+bad+") can follow this send on the results channel: the scanner only starts reading results after every injected file has reported on its inject channel, so the parse goroutine blocks on results, never reports on inject, and the build never ends")
			}
		})
	}
	if !r.Anchor("sends on the results channel in parseFile", n >= 2) {
		return r
	}
	r.Floor(2)
	return r
}

// ---------------------------------------------------------------------------------------------
// C16/R13 indent-is-minimum-over-all-lines.
//
// CommentTextWithoutIndent computes the common indent of a comment's continuation lines and then
// slices it off every one of them (`line[indent:]`). The slice is in range because the indent is
// the minimum over *all* continuation lines. A line that is exempted from the minimum (a blank
// line, say) but still sliced makes `indent` larger than that line: slice bounds out of range, an
// internal error for an ordinary input. Rule: the update of the running minimum is control
// dependent on nothing but the comparison with the running minimum.
func c16IndentMinimumOverAll(p *Prog) *RuleResult {
	r := NewRule("C16/R13 indent-is-minimum-over-all-lines", "the indent that CommentTextWithoutIndent slices off every continuation line is the minimum over all of them: the minimum's update is conditional only on the comparison with the running minimum")
	fn := p.FindFunc("logger.(*Source).CommentTextWithoutIndent")
	if !r.Anchor("logger.(*Source).CommentTextWithoutIndent", fn != nil) {
		return r
	}
	// the value used as the low bound of a slice of a range element in a loop
	var lows []ssa.Value
	eachInstr(fn, func(b *ssa.BasicBlock, in ssa.Instruction) {
		if sl, ok := in.(*ssa.Slice); ok && sl.Low != nil && sl.High == nil && blockInLoop(b) {
			if _, isConst := sl.Low.(*ssa.Const); !isConst {
				lows = append(lows, sl.Low)
			}
		}
	})
	if !r.Anchor("a slice of a line at the computed indent inside a loop", len(lows) >= 1) {
		return r
	}
	loops := naturalLoops(fn)
	n := 0
	for _, low := range lows {
		// the phi web of the bound: find phis at loop headers whose in-loop edge is a value selected under a comparison
		seen := map[ssa.Value]bool{}
		var phis []*ssa.Phi
		var walk func(v ssa.Value, d int)
		varName := ""
		if lp, ok := low.(*ssa.Phi); ok {
			varName = lp.Comment
		}
		walk = func(v ssa.Value, d int) {
			if seen[v] || d > 8 {
				return
			}
			if ph, ok := v.(*ssa.Phi); ok && ph.Comment == varName {
				seen[v] = true
				phis = append(phis, ph)
				for _, e := range ph.Edges {
					walk(e, d+1)
				}
			}
		}
		walk(low, 0)
		for _, ph := range phis {
			hdrBody, isHeader := loops[ph.Block()]
			// [pred where the minimum was lowered: newValue, other preds: old value]
			for i, e := range ph.Edges {
				if seen[e] {
					continue // the variable's own previous value
				}
				if _, isConst := e.(*ssa.Const); isConst {
					continue
				}
				// an update that is a function of the variable itself (indent++) is a counter, not a minimum
				selfDerived := false
				operandSlice(e, func(v ssa.Value) bool {
					if seen[v] {
						selfDerived = true
					}
					return true
				})
				if selfDerived {
					continue
				}
				pred := ph.Block().Preds[i]
				if isHeader && !hdrBody[pred] {
					continue // the value the loop starts with
				}
				if !blockInLoop(pred) {
					continue
				}
				n++
				r.Instances++
				key := fmt.Sprintf("CommentTextWithoutIndent lowers the running indent #%d", n)
				var extra []string
				for _, ifi := range controlDepIfsTransitive(pred) {
					// inside the same loop only
					inLoop := false
					for _, body := range loops {
						if body[pred] && body[ifi.Block()] {
							inLoop = true
						}
					}
					if !inLoop {
						continue
					}
					var vals []ssa.Value
					condsOfBoolValue(ifi.Cond, &vals, 0)
					for _, v := range vals {
						bo, ok := v.(*ssa.BinOp)
						if !ok {
							continue
						}
						isCmpWithMin := false
						for _, side := range []ssa.Value{bo.X, bo.Y} {
							if sp, ok := side.(*ssa.Phi); ok && seen[sp] {
								isCmpWithMin = true
							}
						}
						if !isCmpWithMin && (bo.Op == token.LSS || bo.Op == token.GTR || bo.Op == token.LEQ || bo.Op == token.GEQ || bo.Op == token.EQL || bo.Op == token.NEQ) {
							// a loop-exit test of the enclosing range loop is not a restriction
							if _, isHeader := loops[ifi.Block()]; isHeader {
								continue
							}
							extra = append(extra, ssaExpr(v, 0))
						}
					}
				}
				sort.Strings(extra)
				if len(extra) == 0 {
					r.OK(key, true, "conditional only on the comparison with the running minimum")
				} else {
					r.Fail(key, p.Pos(firstPos(pred)), "the running minimum is only lowered under a further condition ("+strings.Join(extra, "; ")+"): lines that fail it do not take part in the minimum but are still sliced at it, so a line shorter than the indent makes `line[indent:]` panic (slice bounds out of range → internal error for an ordinary comment)")
				}
			}
		}
	}
	if !r.Anchor("updates of the running minimum", n >= 1) {
		return r
	}
	r.Floor(1)
	return r
}

// ---------------------------------------------------------------------------------------------
// C18/R10 chunk-data-hashed-unconditionally.
//
// generateIsolatedHash mixes the chunk's own data (its pieces, its source map, its external legal
// comments, its path template) into the hash. Whether a piece of chunk data is hashed may depend on
// that data (empty or not) but not on a build option: an option that switches the hashing of chunk
// data off while the data still reaches an output (the inline source map is appended to the chunk
// after hashing) gives two builds one name for different bytes.
func c18ChunkDataHashedUnconditionally(p *Prog) *RuleResult {
	r := NewRule("C18/R10 chunk-data-hashed-unconditionally", "in generateIsolatedHash a hash write whose data comes from the chunk is not conditional on a build option")
	iso := p.FindFunc("linker.(*linkerContext).generateIsolatedHash")
	if !r.Anchor("linker.(*linkerContext).generateIsolatedHash", iso != nil) {
		return r
	}
	n := 0
	seenKey := map[string]int{}
	for _, fn := range withClosures(iso) {
		eachInstr(fn, func(b *ssa.BasicBlock, in ssa.Instruction) {
			c, ok := in.(*ssa.Call)
			if !ok {
				return
			}
			name := calleeFullName(c)
			if !strings.HasSuffix(name, "linker.hashWriteUint32") && !strings.HasSuffix(name, "linker.hashWriteLengthPrefixed") {
				return
			}
			// chunk fields in the data
			fields := map[string]bool{}
			for _, a := range c.Call.Args[1:] {
				backSlice(a, func(v ssa.Value) bool {
					switch x := v.(type) {
					case *ssa.FieldAddr:
						if namedTypeName(x.X.Type()) == "linker.chunkInfo" {
							fields[fieldAddrName(x)] = true
						}
					case *ssa.Field:
						if namedTypeName(x.X.Type()) == "linker.chunkInfo" {
							fields[fieldValName(x)] = true
						}
					}
					return true
				})
			}
			if len(fields) == 0 {
				return
			}
			var fs []string
			for f := range fields {
				fs = append(fs, f)
			}
			sort.Strings(fs)
			n++
			r.Instances++
			base := "generateIsolatedHash hashes chunkInfo." + strings.Join(fs, "+")
			seenKey[base]++
			key := base
			if seenKey[base] > 1 {
				key = fmt.Sprintf("%s #%d", base, seenKey[base])
			}
			opts := map[string]bool{}
			for _, ifi := range controlDepIfsTransitive(b) {
				optionFieldsIn(ifi.Cond, opts)
			}
			if len(opts) == 0 {
				r.OK(key, true, "not conditional on any build option")
				return
			}
			var os []string
			for o := range opts {
				os = append(os, o)
			}
			sort.Strings(os)
			r.Fail(key, p.Pos(c.Pos()), "whether this chunk data is mixed into the hash depends on options."+strings.Join(os, ", options.")+": for the option values that skip it the data can still reach an output named after the hash (an inline source map is appended to the chunk after hashing), so two builds that differ only in that data emit the same file name with different bytes")
		})
	}
	if !r.Anchor("hash writes of chunk data in generateIsolatedHash", n >= 4) {
		return r
	}
	r.Floor(4)
	return r
}

// ---------------------------------------------------------------------------------------------
// C19/R11 input-size-from-unmodified-contents.
//
// The metafile reports `"bytes": len(InputFile.Source.Contents)` for every input. parseFile copies
// its local `source` into the result's InputFile; whatever it did to `source.Contents` before that
// copy is what the metafile measures. Loader-specific normalisation of the text (stripping a BOM
// for the text loader) belongs after the copy. Rule: every store into source.Contents from which the
// copy into InputFile.Source is reachable stores a constant (the reviewed empty-loader reset).
func c19InputSizeUnmodified(p *Prog) *RuleResult {
	r := NewRule("C19/R11 input-size-from-unmodified-contents", "parseFile does not rewrite source.Contents before the source is recorded as the input file (the metafile's input size is the length of that text)")
	fn := p.FindFunc("bundler.parseFile")
	if !r.Anchor("bundler.parseFile", fn != nil) {
		return r
	}
	// the copy: a store into a field named Source of graph.InputFile
	var copies []*ssa.Store
	eachInstr(fn, func(b *ssa.BasicBlock, in ssa.Instruction) {
		if st, ok := in.(*ssa.Store); ok {
			if fa, ok := st.Addr.(*ssa.FieldAddr); ok && fieldAddrName(fa) == "Source" && namedTypeName(fa.X.Type()) == "graph.InputFile" {
				copies = append(copies, st)
			}
		}
	})
	if !r.Anchor("the copy of the local source into InputFile.Source", len(copies) >= 1) {
		return r
	}
	isCopy := map[ssa.Instruction]bool{}
	for _, c := range copies {
		isCopy[c] = true
	}
	n := 0
	eachInstr(fn, func(b *ssa.BasicBlock, in ssa.Instruction) {
		st, ok := in.(*ssa.Store)
		if !ok {
			return
		}
		fa, ok := st.Addr.(*ssa.FieldAddr)
		if !ok || fieldAddrName(fa) != "Contents" || namedTypeName(fa.X.Type()) != "logger.Source" {
			return
		}
		reaches := false
		for _, later := range instrsAfter(st) {
			if isCopy[later] {
				reaches = true
			}
		}
		if !reaches {
			return
		}
		n++
		r.Instances++
		key := fmt.Sprintf("parseFile rewrites source.Contents before the input file is recorded #%d", n)
		derived := false
		operandSlice(st.Val, func(v ssa.Value) bool {
			if f2, ok := v.(*ssa.FieldAddr); ok && fieldAddrName(f2) == "Contents" && namedTypeName(f2.X.Type()) == "logger.Source" {
				derived = true
			}
			return true
		})
		if _, ok := st.Val.(*ssa.Const); ok {
			r.OK(key, true, "stores a constant (the empty loader discards the contents by definition)")
		} else if !derived {
			r.OK(key, true, "stores what was read (file contents or the plugin's result), not a function of the previous contents")
		} else {
			r.Fail(key, p.Pos(st.Pos()), "the contents are rewritten ("+ssaExpr(st.Val, 0)+") before the source is recorded as the input file: the metafile then reports the length of the rewritten text, not the size of the file that was read")
		}
	})
	r.Instances++
	r.OK("parseFile records the input file from the local source", true, fmt.Sprintf("%d copy site(s), %d earlier rewrite(s) of the contents", len(copies), n))
	r.Floor(1)
	return r
}

// ---------------------------------------------------------------------------------------------
// C10/R8 relative-specifier-prefix.
//
// A path between two chunks must be printed as a relative specifier: it has to start with `./` or
// `../`, otherwise a module loader reads its first segment as a package name. pathBetweenChunks adds
// `./` when the path is not already relative. "Already relative" means exactly "starts with `./` or
// `../`": a path that merely starts with a dot (`.chunks/x.js`) is not.
func c10RelativeSpecifierPrefix(p *Prog) *RuleResult {
	r := NewRule("C10/R8 relative-specifier-prefix", "pathBetweenChunks prepends `./` unless the path starts with exactly `./` or `../` (a leading dot alone does not make a specifier relative)")
	fn := p.FindFunc("linker.(*linkerContext).pathBetweenChunks")
	if !r.Anchor("linker.(*linkerContext).pathBetweenChunks", fn != nil) {
		return r
	}
	n := 0
	eachInstr(fn, func(b *ssa.BasicBlock, in ssa.Instruction) {
		bo, ok := in.(*ssa.BinOp)
		if !ok || bo.Op != token.ADD {
			return
		}
		if s, ok := constString(bo.X); !ok || s != "./" {
			return
		}
		n++
		r.Instances++
		key := "pathBetweenChunks prepends ./ to non-relative paths"
		prefixes := map[string]bool{}
		for _, ifi := range controlDepIfsTransitive(b) {
			sliceCond(ifi.Cond, func(v ssa.Value) bool {
				if c, ok := v.(*ssa.Call); ok && calleeFullName(c) == "strings.HasPrefix" && len(c.Call.Args) == 2 {
					if s, ok := constString(c.Call.Args[1]); ok {
						prefixes[s] = true
					}
				}
				return true
			})
		}
		var bad []string
		for s := range prefixes {
			if s != "./" && s != "../" {
				bad = append(bad, fmt.Sprintf("%q", s))
			}
		}
		sort.Strings(bad)
		switch {
		case len(bad) > 0:
			r.Fail(key, p.Pos(bo.Pos()), "the path counts as already relative when it starts with "+strings.Join(bad, ", ")+": a chunk directory whose name starts with a dot (`.chunks/x.js`) is then imported as `.chunks/x.js`, which a module loader reads as a package name")
		case !prefixes["./"] || !prefixes["../"]:
			r.Fail(key, p.Pos(bo.Pos()), "the decision to prepend `./` does not test for both `./` and `../`")
		default:
			r.OK(key, true, "tests exactly the prefixes ./ and ../")
		}
	})
	if !r.Anchor("the `./` prefixing in pathBetweenChunks", n >= 1) {
		return r
	}
	r.Floor(1)
	return r
}

// ---------------------------------------------------------------------------------------------
// C07/R9 nested-name-wins.
//
// When a file is remapped through its input source map, a recorded name has to be the identifier in
// the *original* source. The name the printer passes in is the identifier in the intermediate file;
// the nested map's name, when the nearest mapping has one, is the original. Rule: in appendMapping
// the replacement of the name by the nested map's name is not conditional on the incoming name.
func c07NestedNameWins(p *Prog) *RuleResult {
	r := NewRule("C07/R9 nested-name-wins", "when remapping through an input source map, the name recorded in the nested map replaces the printer's name whenever the mapping has one (not only when the printer passed none)")
	fn := p.FindFunc("sourcemap.(*ChunkBuilder).appendMapping")
	if !r.Anchor("sourcemap.(*ChunkBuilder).appendMapping", fn != nil) {
		return r
	}
	var nameParam *ssa.Parameter
	for _, prm := range fn.Params {
		if prm.Type().String() == "string" {
			nameParam = prm
		}
	}
	if !r.Anchor("the name parameter of appendMapping", nameParam != nil) {
		return r
	}
	n := 0
	eachInstr(fn, func(b *ssa.BasicBlock, in ssa.Instruction) {
		// the load of inputSourceMap.Names[...]
		u, ok := in.(*ssa.UnOp)
		if !ok || u.Op != token.MUL {
			return
		}
		ia, ok := u.X.(*ssa.IndexAddr)
		if !ok {
			return
		}
		if _, name, ok := loadedField(ia.X); !ok || name != "Names" {
			return
		}
		n++
		r.Instances++
		key := "appendMapping takes the nested map's name"
		usesParam := false
		for _, ifi := range controlDepIfsTransitive(b) {
			var vals []ssa.Value
			condsOfBoolValue(ifi.Cond, &vals, 0)
			for _, cv := range vals {
				operandSlice(cv, func(v ssa.Value) bool {
					if v == ssa.Value(nameParam) {
						usesParam = true
					}
					return true
				})
			}
		}
		if usesParam {
			r.Fail(key, p.Pos(u.Pos()), "the nested map's name is only used when the printer passed no name: an identifier that esbuild renames again in this build keeps the name it has in the intermediate file (`r`, `n`), not the original identifier at the mapped position")
		} else {
			r.OK(key, true, "not conditional on the incoming name")
		}
	})
	if !r.Anchor("the read of inputSourceMap.Names in appendMapping", n >= 1) {
		return r
	}
	r.Floor(1)
	return r
}

// operandSlice walks the operands of a value transitively without following what is stored into
// memory cells (flow-insensitive store-following would make every later store into a local struct
// look like an input of an earlier condition).
func operandSlice(v ssa.Value, visit func(ssa.Value) bool) {
	seen := map[ssa.Value]bool{}
	var walk func(v ssa.Value, d int)
	walk = func(v ssa.Value, d int) {
		if v == nil || seen[v] || d > 40 {
			return
		}
		seen[v] = true
		if !visit(v) {
			return
		}
		in, ok := v.(ssa.Instruction)
		if !ok {
			return
		}
		var ops []*ssa.Value
		for _, op := range in.Operands(ops) {
			if op != nil && *op != nil {
				walk(*op, d+1)
			}
		}
	}
	walk(v, 0)
}

// ---------------------------------------------------------------------------------------------
// C12/R10 number-mangling-splits-off-exponent.
//
// mangleNumber shortens the text of a CSS number: it strips trailing zeros of the fraction and the
// zero before the point. A number may carry an exponent (`1.50e10`); its digits are not fraction
// digits, and stripping "trailing zeros" of the whole text turns `1.5e10px` into `1.5e1px`. Rule: the
// loop that strips `0` bytes from the end is dominated by a search for the exponent marker (the
// text it works on is what precedes the marker).
func c12NumberExponent(p *Prog) *RuleResult {
	r := NewRule("C12/R10 number-mangling-splits-off-exponent", "mangleNumber strips trailing zeros only from the part of the number before an exponent marker")
	fn := p.FindFunc("css_parser.mangleNumber")
	if !r.Anchor("css_parser.mangleNumber", fn != nil) {
		return r
	}
	var strip *ssa.BasicBlock
	for _, b := range fn.Blocks {
		if !blockInLoop(b) {
			continue
		}
		for _, in := range b.Instrs {
			if bo, ok := in.(*ssa.BinOp); ok && (bo.Op == token.EQL || bo.Op == token.NEQ) {
				if k, ok := constInt(bo.Y); ok && k == '0' {
					strip = b
				}
			}
		}
	}
	if strip == nil {
		// the same stripping written with the library: strings.TrimRight(t, "0") / TrimSuffix / TrimFunc over '0'
		eachInstr(fn, func(b *ssa.BasicBlock, in ssa.Instruction) {
			c, ok := in.(*ssa.Call)
			if !ok || len(c.Call.Args) < 2 {
				return
			}
			switch calleeFullName(c) {
			case "strings.TrimRight", "strings.TrimSuffix", "strings.Trim":
				if s, ok := constString(c.Call.Args[1]); ok && strings.Contains(s, "0") && strip == nil {
					strip = b
				}
			}
		})
	}
	if !r.Anchor("the loop of mangleNumber that strips `0` bytes", strip != nil) {
		return r
	}
	r.Instances++
	key := "mangleNumber strips trailing zeros before the exponent only"
	found := false
	eachInstr(fn, func(b *ssa.BasicBlock, in ssa.Instruction) {
		c, ok := in.(*ssa.Call)
		if !ok || !strings.HasPrefix(calleeFullName(c), "strings.") || len(c.Call.Args) < 2 {
			return
		}
		marker := false
		if s, ok := constString(c.Call.Args[1]); ok && strings.ContainsAny(s, "eE") {
			marker = true
		}
		if k, ok := constInt(c.Call.Args[1]); ok && (k == 'e' || k == 'E') {
			marker = true
		}
		if marker && (b == strip || b.Dominates(strip)) {
			found = true
		}
	})
	if found {
		r.OK(key, true, "the zero-stripping loop is dominated by a search for the exponent marker")
	} else {
		r.Fail(key, p.Pos(firstPos(strip)), "trailing `0` bytes are stripped from the whole number text without looking for an exponent: `1.5e10px` becomes `1.5e1px` and `1.50e20px` becomes `1.50e2px` — a different value")
	}
	r.Floor(1)
	return r
}

// ---------------------------------------------------------------------------------------------
// C12/R11 calc-reciprocal-only-for-plain-numbers.
//
// As a size optimisation the calc() simplifier turns `* 0.5` into `/ 2` when the reciprocal prints
// shorter. That identity holds for plain numbers only: `x * .5px` is a length, `x / 2px` divides by a
// length (a different type, and invalid where a length is expected). Rule: every construction of a
// calcInvert node from a numeric term is control dependent on a test of that term's unit.
func c12CalcReciprocalUnitless(p *Prog) *RuleResult {
	r := NewRule("C12/R11 calc-reciprocal-only-for-plain-numbers", "the calc() simplifier rewrites a multiplication into a division by the reciprocal only for numbers without a unit")
	n := 0
	for _, fn := range p.ModuleFuncs() {
		if pkgPathOf(fn) != modPath+"/internal/css_parser" {
			continue
		}
		eachInstr(fn, func(b *ssa.BasicBlock, in ssa.Instruction) {
			al, ok := in.(*ssa.Alloc)
			if !ok || !al.Heap || namedTypeName(al.Type()) != "css_parser.calcInvert" {
				return
			}
			// only constructions that follow a reciprocal computation (1 / number) in the same function
			hasRecip := false
			eachInstr(fn, func(b2 *ssa.BasicBlock, in2 ssa.Instruction) {
				if bo, ok := in2.(*ssa.BinOp); ok && bo.Op == token.QUO {
					if c, ok := bo.X.(*ssa.Const); ok && c.Value != nil && c.Value.String() == "1" {
						hasRecip = true
					}
				}
			})
			if !hasRecip {
				return
			}
			n++
			r.Instances++
			key := fmt.Sprintf("%s builds an inverted numeric term #%d", FuncName(fn), n)
			// the numeric term that is wrapped: a *calcNumeric value stored (as an interface) inside the new node
			numerics := map[ssa.Value]bool{}
			deepSlice(al, func(v ssa.Value) bool {
				if mi, ok := v.(*ssa.MakeInterface); ok && namedTypeName(mi.X.Type()) == "css_parser.calcNumeric" {
					numerics[mi.X] = true
				}
				return true
			})
			tested := false
			for _, ifi := range controlDepIfsTransitive(b) {
				sliceCond(ifi.Cond, func(v ssa.Value) bool {
					if fa, ok := v.(*ssa.FieldAddr); ok && fieldAddrName(fa) == "unit" && numerics[fa.X] {
						tested = true
					}
					return true
				})
			}
			if tested {
				r.OK(key, true, "conditional on the numeric term's unit")
			} else {
				r.Fail(key, p.Pos(al.Pos()), "a numeric factor is replaced by a division by its reciprocal without looking at its unit: `calc(env(x) * .5px)` becomes `calc(env(x) / 2px)`, which divides by a length instead of scaling one")
			}
		})
	}
	if !r.Anchor("reciprocal rewrites in the calc() simplifier", n >= 1) {
		return r
	}
	r.Floor(1)
	return r
}
