package main

import (
	"sort"
	"strings"
	"sync"

	"golang.org/x/tools/go/ssa"
)

// C18/R8 post-hash-appends-hashed.
//
// The chunk's hash is computed from the intermediate output. Afterwards the emission closure of
// generateChunksInParallel substitutes the final paths and *appends* further bytes to the chunk's
// own contents (the link to the legal-comments file, the source-map comment). Whether and what it
// appends is decided by build options. Every option field that such an append is control- or
// data-dependent on must be an input of the isolated hash (it must occur in the data or control
// slice of a hash write in generateIsolatedHash), otherwise two builds that differ only in that
// option emit the same hashed name with different bytes.
//
// Mechanics: the joiner is the first result of the substituteFinalPaths call whose value reaches an
// OutputFile.Contents store; appends are the method calls on the local cell that holds it. Control
// dependence is computed on the SSA control-flow graph (block B depends on If-block A when one
// successor of A reaches B and the other reaches the function's exit avoiding B).
func controlDepIfs(b *ssa.BasicBlock) []*ssa.If {
	fn := b.Parent()
	pd := postDominators(fn)
	var out []*ssa.If
	for _, a := range fn.Blocks {
		if len(a.Instrs) == 0 || len(a.Succs) != 2 {
			continue
		}
		ifi, ok := a.Instrs[len(a.Instrs)-1].(*ssa.If)
		if !ok {
			continue
		}
		// b is control dependent on a iff b post-dominates a successor of a and does not strictly
		// post-dominate a (Ferrante, Ottenstein, Warren)
		if a != b && pd.postDominates(b, a) {
			continue
		}
		for _, s := range a.Succs {
			if s == b || pd.postDominates(b, s) {
				out = append(out, ifi)
				break
			}
		}
	}
	return out
}

// transitive closure of control dependence (the conditions that decide whether b executes at all)
func controlDepIfsTransitive(b *ssa.BasicBlock) []*ssa.If {
	seen := map[*ssa.If]bool{}
	seenB := map[*ssa.BasicBlock]bool{}
	var out []*ssa.If
	work := []*ssa.BasicBlock{b}
	for len(work) > 0 {
		x := work[len(work)-1]
		work = work[:len(work)-1]
		if seenB[x] {
			continue
		}
		seenB[x] = true
		for _, ifi := range controlDepIfs(x) {
			if !seen[ifi] {
				seen[ifi] = true
				out = append(out, ifi)
				work = append(work, ifi.Block())
			}
		}
	}
	return out
}

type postDom struct {
	idx  map[*ssa.BasicBlock]int
	sets [][]uint64 // sets[i] = blocks that post-dominate block i (bitset over block indices, last bit = exit)
}

var postDomCache = map[*ssa.Function]*postDom{}
var postDomMu sync.Mutex

func (pd *postDom) postDominates(a, b *ssa.BasicBlock) bool {
	ia, ib := pd.idx[a], pd.idx[b]
	return pd.sets[ib][ia/64]&(1<<(uint(ia)%64)) != 0
}

func postDominators(fn *ssa.Function) *postDom {
	postDomMu.Lock()
	defer postDomMu.Unlock()
	if pd, ok := postDomCache[fn]; ok {
		return pd
	}
	n := len(fn.Blocks)
	words := (n + 1 + 63) / 64
	pd := &postDom{idx: map[*ssa.BasicBlock]int{}, sets: make([][]uint64, n)}
	for i, b := range fn.Blocks {
		pd.idx[b] = i
	}
	full := make([]uint64, words)
	for i := 0; i <= n; i++ {
		full[i/64] |= 1 << (uint(i) % 64)
	}
	for i := range pd.sets {
		pd.sets[i] = append([]uint64{}, full...)
	}
	exitOnly := make([]uint64, words)
	exitOnly[n/64] |= 1 << (uint(n) % 64)
	changed := true
	tmp := make([]uint64, words)
	for changed {
		changed = false
		for i := n - 1; i >= 0; i-- {
			b := fn.Blocks[i]
			if len(b.Succs) == 0 {
				copy(tmp, exitOnly)
			} else {
				copy(tmp, full)
				for _, s := range b.Succs {
					ss := pd.sets[pd.idx[s]]
					for w := range tmp {
						tmp[w] &= ss[w]
					}
				}
			}
			tmp[i/64] |= 1 << (uint(i) % 64)
			for w := range tmp {
				if tmp[w] != pd.sets[i][w] {
					changed = true
					copy(pd.sets[i], tmp)
					break
				}
			}
		}
	}
	postDomCache[fn] = pd
	return pd
}

func optionFieldsIn(v ssa.Value, into map[string]bool) {
	sliceCond(v, func(x ssa.Value) bool {
		switch y := x.(type) {
		case *ssa.FieldAddr:
			if namedTypeName(y.X.Type()) == "config.Options" {
				into[fieldAddrName(y)] = true
			}
		case *ssa.Field:
			if namedTypeName(y.X.Type()) == "config.Options" {
				into[fieldValName(y)] = true
			}
		}
		return true
	})
}

var c18PostHashExceptions = ExcTable{}

func c18PostHashAppends(p *Prog) *RuleResult {
	r := NewRule("C18/R8 post-hash-appends-hashed", "every build option that decides whether or what the emission step appends to a chunk's contents after hashing is an input of the chunk's isolated hash")
	gen := p.FindFunc("linker.(*linkerContext).generateChunksInParallel")
	iso := p.FindFunc("linker.(*linkerContext).generateIsolatedHash")
	if !r.Anchor("linker.(*linkerContext).generateChunksInParallel", gen != nil) || !r.Anchor("linker.(*linkerContext).generateIsolatedHash", iso != nil) {
		return r
	}
	// option fields that are inputs of a hash write in generateIsolatedHash
	hashed := map[string]bool{}
	nwrites := 0
	for _, fn := range withClosures(iso) {
		eachInstr(fn, func(b *ssa.BasicBlock, in ssa.Instruction) {
			c, ok := in.(*ssa.Call)
			if !ok {
				return
			}
			name := calleeFullName(c)
			if !strings.HasSuffix(name, "linker.hashWriteUint32") && !strings.HasSuffix(name, "linker.hashWriteLengthPrefixed") && name != "invoke (hash.Hash).Write" && name != "invoke (io.Writer).Write" {
				return
			}
			nwrites++
			for _, a := range c.Call.Args {
				optionFieldsIn(a, hashed)
			}
			for _, ifi := range controlDepIfs(b) {
				optionFieldsIn(ifi.Cond, hashed)
			}
		})
	}
	if !r.Anchor("hash writes in generateIsolatedHash", nwrites >= 3) {
		return r
	}
	// the emission closure and the joiner cell
	var emit *ssa.Function
	var cell *ssa.Alloc
	for _, fn := range gen.AnonFuncs {
		eachInstr(fn, func(b *ssa.BasicBlock, in ssa.Instruction) {
			c, ok := in.(*ssa.Call)
			if !ok || !strings.HasSuffix(calleeFullName(c), "linkerContext).substituteFinalPaths") || cell != nil {
				return
			}
			// Extract #0 stored into a local cell
			if c.Referrers() == nil {
				return
			}
			for _, rf := range *c.Referrers() {
				ex, ok := rf.(*ssa.Extract)
				if !ok || ex.Index != 0 || ex.Referrers() == nil {
					continue
				}
				for _, rr := range *ex.Referrers() {
					if st, ok := rr.(*ssa.Store); ok {
						if al, ok := st.Addr.(*ssa.Alloc); ok {
							// the cell whose Done() result reaches an OutputFile.Contents store
							reaches := false
							for _, ar := range *al.Referrers() {
								if cc, ok := ar.(*ssa.Call); ok && strings.HasSuffix(calleeFullName(cc), "Joiner).Done") {
									if cc.Referrers() != nil {
										for _, dr := range *cc.Referrers() {
											if s2, ok := dr.(*ssa.Store); ok {
												if fa, ok := s2.Addr.(*ssa.FieldAddr); ok && fieldAddrName(fa) == "Contents" {
													reaches = true
												}
											}
										}
									}
								}
							}
							if reaches {
								emit, cell = fn, al
							}
						}
					}
				}
			}
		})
	}
	if !r.Anchor("emission closure: joiner returned by substituteFinalPaths whose Done() is stored into OutputFile.Contents", cell != nil) {
		return r
	}
	_ = emit
	// appends on the cell
	deps := map[string]string{} // option field -> first append position
	nappends := 0
	isJoinerRead := func(name string) bool {
		return strings.HasSuffix(name, "Joiner).Done") || strings.HasSuffix(name, "Joiner).Length") || strings.HasSuffix(name, "Joiner).LastByte") || strings.HasSuffix(name, "Joiner).Contains")
	}
	record := func(c *ssa.Call, extra map[string]bool, pos string) {
		nappends++
		fields := map[string]bool{}
		for f := range extra {
			fields[f] = true
		}
		for _, a := range c.Call.Args[1:] {
			optionFieldsIn(a, fields)
		}
		for _, ifi := range controlDepIfsTransitive(c.Block()) {
			optionFieldsIn(ifi.Cond, fields)
		}
		for f := range fields {
			if _, ok := deps[f]; !ok || pos < deps[f] {
				deps[f] = pos
			}
		}
	}
	for _, rf := range *cell.Referrers() {
		c, ok := rf.(*ssa.Call)
		if !ok || len(c.Call.Args) == 0 {
			continue
		}
		name := calleeFullName(c)
		if c.Call.Args[0] == ssa.Value(cell) && strings.Contains(name, "helpers.Joiner).") {
			if !isJoinerRead(name) {
				record(c, nil, p.Pos(c.Pos()))
			}
			continue
		}
		// the joiner handed to a helper of the module: its appends count, under the caller's
		// conditions at the call site plus the helper's own (closures that capture the joiner are
		// handled below)
		callee := c.Call.StaticCallee()
		if callee == nil || !p.InModule(callee) || len(callee.Blocks) == 0 {
			continue
		}
		for ai, a := range c.Call.Args {
			if a != ssa.Value(cell) || ai >= len(callee.Params) {
				continue
			}
			outer := map[string]bool{}
			for _, ifi := range controlDepIfsTransitive(c.Block()) {
				optionFieldsIn(ifi.Cond, outer)
			}
			prm := callee.Params[ai]
			if prm.Referrers() == nil {
				continue
			}
			for _, pr := range *prm.Referrers() {
				if c2, ok := pr.(*ssa.Call); ok && len(c2.Call.Args) > 0 && c2.Call.Args[0] == ssa.Value(prm) {
					n2 := calleeFullName(c2)
					if strings.Contains(n2, "helpers.Joiner).") && !isJoinerRead(n2) {
						record(c2, outer, p.Pos(c2.Pos()))
					}
				}
			}
		}
	}
	// local closures that capture the joiner
	for _, rf := range *cell.Referrers() {
		mc, ok := rf.(*ssa.MakeClosure)
		if !ok {
			continue
		}
		cf := mc.Fn.(*ssa.Function)
		var fv *ssa.FreeVar
		for i, bnd := range mc.Bindings {
			if bnd == ssa.Value(cell) && i < len(cf.FreeVars) {
				fv = cf.FreeVars[i]
			}
		}
		if fv == nil || fv.Referrers() == nil {
			continue
		}
		// conditions under which the closure is invoked
		outer := map[string]bool{}
		if mc.Referrers() != nil {
			for _, mr := range *mc.Referrers() {
				if call, ok := mr.(*ssa.Call); ok && call.Call.Value == ssa.Value(mc) {
					for _, ifi := range controlDepIfsTransitive(call.Block()) {
						optionFieldsIn(ifi.Cond, outer)
					}
				}
			}
		}
		for _, fr := range *fv.Referrers() {
			if c2, ok := fr.(*ssa.Call); ok && len(c2.Call.Args) > 0 && c2.Call.Args[0] == ssa.Value(fv) {
				n2 := calleeFullName(c2)
				if strings.Contains(n2, "helpers.Joiner).") && !isJoinerRead(n2) {
					record(c2, outer, p.Pos(c2.Pos()))
				}
			}
		}
	}
	if !r.Anchor("appends to the chunk's contents after hashing", nappends >= 3) {
		return r
	}
	var names []string
	for f := range deps {
		names = append(names, f)
	}
	sort.Strings(names)
	for _, f := range names {
		r.Instances++
		key := "config.Options." + f + " decides a post-hash append"
		if hashed[f] {
			r.OK(key, true, "the option is an input (data or control) of a hash write in generateIsolatedHash")
			continue
		}
		if r.CheckExc(c18PostHashExceptions, key) {
			continue
		}
		r.Fail(key, deps[f], "the emission step appends to the chunk's contents depending on options."+f+", which is not an input of the chunk's isolated hash: two builds that differ only in that option emit the same hashed file name with different bytes")
	}
	r.Note("%d appends to the joiner after hashing; option fields they depend on: %s", nappends, strings.Join(names, ", "))
	r.StaleCheck(c18PostHashExceptions)
	r.Floor(2)
	return r
}
