package main

import (
	"fmt"
	"os"
	"sort"
	"strings"

	"golang.org/x/tools/go/ssa"
)

func init() {
	register(&Property{
		ID:          "C06",
		Explanation: "Decides a structural necessary condition of 'TypeScript types are erased without runtime effect': type syntax is skipped as if it were whitespace, so the type-skipping code must have no effect on parser state other than advancing the lexer, and speculative (backtracking) parses must leave no residue. R1 skip-purity: over the static call closure of every (*parser).skipTypeScript* function and of the backtracking family, every store rooted at the parser is inside p.lexer, and no symbol/scope/import-record/usage/diagnostic side effect is reachable (reviewed exceptions listed with reasons); R2 backtrack-shape: each trySkip…WithBacktracking function snapshots p.lexer first, restores it in a deferred closure on LexerPanic (re-panicking anything else) and keeps the log-disabled flag consistent. R3 type-argument-followers: the per-token answer of tsCanFollowTypeArgumentsInExpression is extracted from SSA as a finite table (the function touches the token only through equality tests) and must be the constant true for `(`, no-substitution templates and template heads and the constant false for `<`, the `>` family, `+` and `-`, as in TypeScript's canFollowTypeArgumentsInExpression. The constant-folding clause for enums is shared with C03. R5 dirinfo-follows-path: after finalizeResolve rewrites a path to its real path, no directory-info value is used before a fresh lookup. R6 shared-ast-immutability: the C09/R2 frozen-AST analysis. R7 token-enum-vs-character: no value of js_lexer.T / css_lexer.T is compared with a character literal (module-wide, AST + types). R8 enum-inlining-order-independent: the C08/R1 map-order classification restricted to the loops that refer to the cross-module TSEnums tables. R9 ts-modifier-same-line: every recursive parseProperty call that depends on the TypeScript option and on the spelling of the preceding identifier also depends on Lexer.HasNewlineBefore. R10 tsconfig-setting-stored-under-its-own-key: each config.TSConfig field is stored in ParseTSConfigJSON under exactly one getProperty key. R11 enum-inlining-not-on-write-targets: the EDot/EIndex enum-inlining sites of printExpr are conditional on the expression flags (two known findings). NOT covered: that typed and untyped programs print identically; enum/namespace/decorator semantics.",
		Run: func(p *Prog, tier string) []*RuleResult {
			return []*RuleResult{c06SkipPurity(p), c06BacktrackShape(p), c06TypeArgFollowers(p), c06EnumDiscriminant(p), c06DirInfoFollowsPath(p), renamed(c09Frozen(p), "C06/R6 shared-ast-immutability", "enum members and constants of other files are inlined late (print time) into the importing file's nodes; the folded value may never be written back into the cached AST of the importer, or a rebuild after the enum changed prints the old member (same analysis as C09/R2)"), tokenVsCharacter(p, "C06/R7 token-enum-vs-character"), mapOrderRule(p, "C06/R8 enum-inlining-order-independent", "the loops over Go maps that decide which accesses of a cross-module TypeScript enum are inlined and which keep the enum object alive are independent of the iteration order (a decision that depends on which property the map happened to yield last inlines some members and drops the object the others still refer to; same analysis as C08/R1)", mentionsTSEnum, 1), c06TSModifierSameLine(p), c06TSConfigOwnKey(p), c06EnumInliningNotOnTargets(p)}
		},
	})
}

var c06EffectEscapes = []string{
	"pushScopeForParsePass", "popScope", "popAndDiscardScope", "popAndFlattenScope", "declareSymbol", "newSymbol", "addImportRecord", "recordUsage", "storeNameInRef", "loadNameFromRef",
	"declareBinding", "recordExport", "markSyntaxFeature", "markStrictModeFeature", "generateTempRef",
}

var c06SkipExceptions = ExcTable{
	"js_parser.(*parser).skipTypeScriptTypeWithFlags calls log.AddError":                                        "two direct errors (tuple label `[const: …]`/`[keyword: …]` and abstract-new misuse) that bypass the lexer's log suppression; each needs input that is a syntax error under the non-type interpretation too, so no valid program gains a diagnostic (triaged F6)",
	"js_parser.(*parser).skipTypeScriptTypeParameters calls log.AddError":                                       "misplaced `in`/`out`/`const` variance modifiers: the input is invalid TypeScript under every interpretation (triaged F6)",
	"js_parser.(*parser).skipTypeScriptInterfaceStmt store p.js_parser.parser.localTypeNames":                   "type-level bookkeeping: remembers that the name denotes a type so that `export { T }` can be elided (the documented elision of type-only exports); never consulted for value names",
	"js_parser.(*parser).skipTypeScriptTypeStmt store p.js_parser.parser.localTypeNames":                        "type-level bookkeeping: remembers that the name denotes a type so that `export { T }` can be elided (the documented elision of type-only exports); never consulted for value names",
	"js_parser.(*parser).parseExportClause calls storeNameInRef":                                                "reached when skipping `export type { … }`: stores identifier text in the parser's name arena (append-only scratch storage); the parsed clause is discarded",
	"js_parser.(*parser).storeNameInRef store p.js_parser.parser.allocatedNames":                                "append-only name arena used to hand out Ref-encoded slices; unused entries have no effect on the AST",
	"js_parser.(*parser).parseExportClause calls log.AddError":                                                  "reached when skipping `export type { … }`: reports a reserved word used as an export name — a syntax error regardless of `type`",
	"js_parser.(*parser).parseClauseAlias calls log.AddError":                                                   "reached when skipping `export type { … }`/`import type { … }`: reports an invalid string alias (lone surrogate) — a syntax error regardless of `type`",
	"js_parser.(*parser).parsePath calls log.AddErrorWithNotes":                                                 "reached when skipping `import type … from`/`export type … from`: reports malformed import attributes — a syntax error regardless of `type`",
	"js_parser.(*parser).maybeWarnAboutAssertKeyword calls log.AddMsgID":                                        "deprecation warning for the `assert` keyword after the path of a type-only import/export; a diagnostic, not output",
	"js_parser.(*parser).checkForUnrepresentableIdentifier calls log.AddError":                                  "reports identifiers that cannot be represented with charset=ascii on targets without unicode escapes; only reached from clause aliases of skipped `export type` clauses; diagnostic only",
	"js_parser.(*parser).checkForUnrepresentableIdentifier store p.js_parser.parser.unrepresentableIdentifiers": "de-duplication set for the diagnostic above",
	"js_parser.(*parser).saveExprCommentsHere store p.js_parser.parser.exprComments":                            "records leading comments keyed by source location for expressions parsed later at that location; entries for skipped type syntax are never looked up",
}

func c06Roots(p *Prog) []*ssa.Function {
	var roots []*ssa.Function
	for _, fn := range p.ModuleFuncs() {
		if pkgPathOf(fn) != modPath+"/internal/js_parser" || fn.Parent() != nil || fn.Signature.Recv() == nil {
			continue
		}
		n := fn.Name()
		if strings.HasPrefix(n, "skipTypeScript") || (strings.HasPrefix(n, "trySkipType") && strings.HasSuffix(n, "WithBacktracking")) {
			roots = append(roots, fn)
		}
	}
	sort.Slice(roots, func(i, j int) bool { return roots[i].Name() < roots[j].Name() })
	return roots
}

func c06SkipPurity(p *Prog) *RuleResult {
	r := NewRule("C06/R1 skip-purity", "TypeScript type-skipping code only advances the lexer: no store into parser state outside p.lexer and no symbol/scope/import/diagnostic effect in its static call closure")
	roots := c06Roots(p)
	if !r.Anchor("skipTypeScript*/trySkip*WithBacktracking roots >= 15", len(roots) >= 15) {
		return r
	}
	// static-callee closure inside js_parser (js_lexer methods only touch the lexer value they are given)
	inSet := map[*ssa.Function]*ssa.Function{}
	var work []*ssa.Function
	for _, f := range roots {
		inSet[f] = nil
		work = append(work, f)
	}
	for len(work) > 0 {
		f := work[len(work)-1]
		work = work[:len(work)-1]
		for _, fn := range withClosures(f) {
			if _, ok := inSet[fn]; !ok {
				inSet[fn] = f
			}
			eachInstr(fn, func(b *ssa.BasicBlock, in ssa.Instruction) {
				c, ok := in.(ssa.CallInstruction)
				if !ok {
					return
				}
				callee := c.Common().StaticCallee()
				if callee == nil || pkgPathOf(callee) != modPath+"/internal/js_parser" {
					return
				}
				if _, seen := inSet[callee]; !seen {
					inSet[callee] = fn
					work = append(work, callee)
				}
			})
		}
	}
	r.Note("functions in the type-skipping closure: %d (roots %d)", len(inSet), len(roots))
	dump := os.Getenv("VERIF_DUMP") != ""
	var fns []*ssa.Function
	for f := range inSet {
		fns = append(fns, f)
	}
	sort.Slice(fns, func(i, j int) bool { return FuncName(fns[i]) < FuncName(fns[j]) })
	escapes := map[string]bool{}
	for _, e := range c06EffectEscapes {
		escapes[e] = true
	}
	for _, fn := range fns {
		r.Instances++
		clean := true
		eachInstr(fn, func(b *ssa.BasicBlock, in ssa.Instruction) {
			switch x := in.(type) {
			case *ssa.Store, *ssa.MapUpdate:
				var addr ssa.Value
				if st, ok := x.(*ssa.Store); ok {
					addr = st.Addr
				} else {
					addr = x.(*ssa.MapUpdate).Map
				}
				steps := addrChain(addr)
				if len(steps) < 2 {
					return
				}
				root := rootOfChain(steps)
				// rooted at the parser? (receiver parameter or captured p)
				if namedTypeName(root.Type()) != "js_parser.parser" {
					// captured p in closures: **parser
					if u, ok := root.(*ssa.UnOp); !ok || namedTypeName(u.Type()) != "js_parser.parser" {
						return
					}
				}
				if _, isAlloc := root.(*ssa.Alloc); isAlloc {
					return // a throw-away parser value built locally
				}
				first := steps[len(steps)-2]
				if first.Kind == "field" && first.Name == "lexer" {
					return
				}
				clean = false
				key := FuncName(fn) + " store p." + pathString(steps[:len(steps)-1])
				if dump {
					fmt.Printf("EFFECT %s @ %s\n", key, p.Pos(in.Pos()))
				}
				if !r.CheckExc(c06SkipExceptions, key) {
					r.Fail(key, p.Pos(in.Pos()), "type-skipping code writes parser state outside the lexer (reached via "+chainTo(inSet, fn)+")")
				}
			case *ssa.Call:
				callee := x.Call.StaticCallee()
				name := ""
				if callee != nil {
					name = callee.Name()
				}
				isLog := isLogCall(in)
				if !escapes[name] && !isLog {
					return
				}
				if callee != nil && pkgPathOf(callee) != modPath+"/internal/js_parser" && !isLog {
					return
				}
				clean = false
				what := name
				if isLog {
					what = "log." + calleeFullName(x)[strings.LastIndex(calleeFullName(x), ".")+1:]
				}
				key := FuncName(fn) + " calls " + what
				if dump {
					fmt.Printf("EFFECT %s @ %s\n", key, p.Pos(in.Pos()))
				}
				if !r.CheckExc(c06SkipExceptions, key) {
					r.Fail(key, p.Pos(in.Pos()), "type-skipping code has a "+what+" effect (reached via "+chainTo(inSet, fn)+")")
				}
			}
		})
		if clean {
			r.OK(FuncName(fn)+" only advances the lexer", true, "no store outside p.lexer, no symbol/scope/import/diagnostic call")
		}
	}
	r.Floor(20)
	r.StaleCheck(c06SkipExceptions)
	return r
}

func c06BacktrackShape(p *Prog) *RuleResult {
	r := NewRule("C06/R2 backtrack-shape", "every backtracking helper snapshots the lexer, restores it on LexerPanic in a deferred closure and re-panics other values")
	n := 0
	for _, fn := range p.ModuleFuncs() {
		if pkgPathOf(fn) != modPath+"/internal/js_parser" || fn.Parent() != nil || !strings.HasSuffix(fn.Name(), "WithBacktracking") {
			continue
		}
		n++
		r.Instances++
		key := FuncName(fn)
		// snapshot: a load of p.lexer stored into a local before any call on the lexer
		snapshot := false
		var firstLexerCall ssa.Instruction
		var snapInstr ssa.Instruction
		eachInstr(fn, func(b *ssa.BasicBlock, in ssa.Instruction) {
			if st, ok := in.(*ssa.Store); ok {
				if al, ok := st.Addr.(*ssa.Alloc); ok && namedTypeName(al.Type()) == "js_lexer.Lexer" {
					if _, nme, ok := loadedField(st.Val); ok && nme == "lexer" && snapInstr == nil {
						snapshot = true
						snapInstr = in
					}
				}
			}
			if c, ok := in.(*ssa.Call); ok && firstLexerCall == nil {
				if callee := c.Call.StaticCallee(); callee != nil && strings.Contains(FuncName(callee), "js_lexer.(*Lexer).") {
					firstLexerCall = in
				}
			}
		})
		// deferred closure: recover + type assert LexerPanic + store to p.lexer + re-panic
		restores, repanics := false, false
		eachInstr(fn, func(b *ssa.BasicBlock, in ssa.Instruction) {
			d, ok := in.(*ssa.Defer)
			if !ok {
				return
			}
			mc, ok := d.Call.Value.(*ssa.MakeClosure)
			if !ok {
				return
			}
			clo := mc.Fn.(*ssa.Function)
			hasRecover, hasAssert := false, false
			eachInstr(clo, func(_ *ssa.BasicBlock, in2 ssa.Instruction) {
				switch x := in2.(type) {
				case *ssa.Call:
					if bi, ok := x.Call.Value.(*ssa.Builtin); ok && bi.Name() == "recover" {
						hasRecover = true
					}
				case *ssa.TypeAssert:
					if namedTypeName(x.AssertedType) == "js_lexer.LexerPanic" {
						hasAssert = true
					}
				case *ssa.Store:
					if fa, ok := x.Addr.(*ssa.FieldAddr); ok && fieldAddrName(fa) == "lexer" {
						restores = true
					}
				case *ssa.Panic:
					repanics = true
				}
			})
			if !(hasRecover && hasAssert) {
				restores = false
			}
		})
		ordered := snapshot && (firstLexerCall == nil || instrDominates(snapInstr, firstLexerCall))
		switch {
		case !snapshot:
			r.Fail(key, p.Pos(fn.Pos()), "no snapshot of p.lexer before the speculative parse")
		case !ordered:
			r.Fail(key, p.Pos(fn.Pos()), "the lexer is advanced before its snapshot is taken")
		case !restores:
			r.Fail(key, p.Pos(fn.Pos()), "the deferred closure does not restore p.lexer on LexerPanic: a failed speculative parse would leave the lexer advanced")
		case !repanics:
			r.Fail(key, p.Pos(fn.Pos()), "the deferred closure swallows panics other than LexerPanic")
		default:
			r.OK(key, true, "snapshot before the first lexer call; deferred recover restores p.lexer on LexerPanic and re-panics otherwise")
		}
	}
	if n < 5 {
		r.Fail("C06/R2 backtracking functions", "-", fmt.Sprintf("only %d *WithBacktracking functions found", n))
	}
	return r
}
