package main

import (
	"fmt"
	"strings"

	"golang.org/x/tools/go/ssa"
)

// ---------------------------------------------------------------------------------------------
// C19/R7 import-kind-matches-printed-form.
//
// The metafile's "kind" of an output's import is written by printPath from its importKind argument.
// What the output file really contains is whatever the printer printed just before: `require(`,
// `import(`, `require.resolve(`, or an import/export statement. An `import()` that is lowered to
// `Promise.resolve().then(() => require(…))` is a require-call in the emitted file, whatever the
// import record says about the source. Rule: at every printPath call the kind is a constant (or a
// phi of constants), and for each constant the nearest keyword printed before it on every path
// agrees with it.
func c19KindMatchesForm(p *Prog) *RuleResult {
	r := NewRule("C19/R7 import-kind-matches-printed-form", "the import kind the JS printer records for the metafile is the kind of the construct it just printed (require( → require-call, import( → dynamic-import, require.resolve( → require-resolve, statement → import-statement), never the kind stored in the import record")
	ap := p.ByPath[modPath+"/internal/ast"]
	target := p.FindFunc("js_printer.(*printer).printPath")
	if !r.Anchor("package ast", ap != nil) || !r.Anchor("js_printer.(*printer).printPath", target != nil) {
		return r
	}
	kinds := constsOfType(ap.Types, "ImportKind")
	nameOf := map[int64]string{}
	for n, v := range kinds {
		nameOf[v] = n
	}
	if !r.Anchor("ast.ImportKind constants", len(kinds) >= 5) {
		return r
	}
	// classify a printed constant / identifier event
	classify := func(in ssa.Instruction) string {
		c, ok := in.(*ssa.Call)
		if !ok {
			return ""
		}
		name := calleeFullName(c)
		if strings.HasSuffix(name, "js_printer.printer).print") && len(c.Call.Args) == 2 {
			if s, ok := constString(c.Call.Args[1]); ok {
				switch {
				case strings.Contains(s, "require.resolve"):
					return "ImportRequireResolve"
				case strings.Contains(s, "require"):
					return "ImportRequire"
				case strings.HasPrefix(s, "import(") || strings.HasPrefix(s, "import."):
					return "ImportDynamic"
				case s == "import" || s == "from" || s == "export" || strings.HasPrefix(s, "import ") || strings.HasPrefix(s, "export "):
					return "ImportStmt"
				}
			}
		}
		return ""
	}
	isRuntimeRequire := func(in ssa.Instruction) bool {
		fa, ok := in.(*ssa.FieldAddr)
		return ok && fieldAddrName(fa) == "RuntimeRequireRef"
	}
	// nearest classified events walking backwards from (block, index)
	nearest := func(b *ssa.BasicBlock, idx int) map[string]bool {
		out := map[string]bool{}
		type pt struct {
			b *ssa.BasicBlock
			i int
		}
		seen := map[*ssa.BasicBlock]bool{}
		work := []pt{{b, idx}}
		for len(work) > 0 {
			w := work[len(work)-1]
			work = work[:len(work)-1]
			found := false
			for i := w.i - 1; i >= 0; i-- {
				in := w.b.Instrs[i]
				if k := classify(in); k != "" {
					out[k] = true
					found = true
					break
				}
				if isRuntimeRequire(in) {
					out["ImportRequire"] = true
					found = true
					break
				}
			}
			if found {
				continue
			}
			if len(w.b.Preds) == 0 {
				out["(function entry)"] = true
			}
			for _, pr := range w.b.Preds {
				if !seen[pr] {
					seen[pr] = true
					work = append(work, pt{pr, len(pr.Instrs)})
				}
			}
		}
		return out
	}
	n := 0
	for _, fn := range p.ModuleFuncs() {
		if pkgPathOf(fn) != modPath+"/internal/js_printer" {
			continue
		}
		k := 0
		eachInstr(fn, func(b *ssa.BasicBlock, in ssa.Instruction) {
			c, ok := in.(*ssa.Call)
			if !ok || c.Call.StaticCallee() != target {
				return
			}
			n++
			k++
			kindArg := c.Call.Args[len(c.Call.Args)-1]
			type item struct {
				k   int64
				b   *ssa.BasicBlock
				idx int
			}
			var items []item
			idxOf := func(b *ssa.BasicBlock, in ssa.Instruction) int {
				for i, x := range b.Instrs {
					if x == in {
						return i
					}
				}
				return len(b.Instrs)
			}
			nonConst := false
			var expand func(v ssa.Value, b *ssa.BasicBlock, idx int, depth int)
			expand = func(v ssa.Value, bb *ssa.BasicBlock, idx int, depth int) {
				if kv, ok := constInt(v); ok {
					items = append(items, item{kv, bb, idx})
					return
				}
				if ph, ok := v.(*ssa.Phi); ok && depth < 6 {
					for i, e := range ph.Edges {
						pr := ph.Block().Preds[i]
						expand(e, pr, len(pr.Instrs), depth+1)
					}
					return
				}
				nonConst = true
			}
			expand(kindArg, b, idxOf(b, c), 0)
			r.Instances++
			key := fmt.Sprintf("%s printPath call #%d", FuncName(fn), k)
			if nonConst {
				r.Fail(key, p.Pos(c.Pos()), "the import kind recorded for the metafile is not a constant decided by the branch that printed the construct (it is "+ssaExpr(kindArg, 0)+"): the kind of the import record describes the source, not what was emitted — an import() lowered to require() is a require-call in the output file")
				return
			}
			var bad []string
			for _, it := range items {
				want := nameOf[it.k]
				got := nearest(it.b, it.idx)
				for g := range got {
					if g == "(function entry)" {
						continue // nothing printed on that path inside this function
					}
					if g != want {
						bad = append(bad, fmt.Sprintf("kind %s is recorded where the construct printed before it is a %s", want, g))
					}
				}
			}
			if len(bad) == 0 {
				r.OK(key, true, fmt.Sprintf("%d constant kind(s), each agreeing with the keyword printed before it on every path", len(items)))
			} else {
				r.Fail(key, p.Pos(c.Pos()), bad[0]+": the metafile's import kind differs from the import the output file really contains")
			}
		})
	}
	if !r.Anchor("printPath call sites", n >= 5) {
		return r
	}
	r.Floor(5)
	return r
}

// ---------------------------------------------------------------------------------------------
// C19/R8 exports-list-from-emitted-aliases.
//
// The export clause of an entry point is generated from JSReprMeta.SortedAndFilteredExportAliases,
// which omits names that two `export *` make ambiguous and re-exports that are probably TypeScript
// types. The metafile's "exports" must list what the file exports, so it has to be enumerated from
// that list too — not from ResolvedExports, the unfiltered map.
func c19ExportsFromEmittedAliases(p *Prog) *RuleResult {
	r := NewRule("C19/R8 exports-list-from-emitted-aliases", "the metafile's exports of an entry point are enumerated from the filtered alias list the export clause is generated from, not from the unfiltered map of resolved exports")
	var host *ssa.Function
	for _, fn := range p.ModuleFuncs() {
		if pkgPathOf(fn) != modPath+"/internal/linker" {
			continue
		}
		eachInstr(fn, func(b *ssa.BasicBlock, in ssa.Instruction) {
			c, ok := in.(*ssa.Call)
			if !ok {
				return
			}
			for _, a := range c.Call.Args {
				if s, ok := constString(a); ok && strings.Contains(s, "\"exports\": [") && TopFunc(fn).Name() == "generateChunkJS" {
					host = fn
				}
			}
		})
	}
	if !r.Anchor("the function that writes the exports list of a JavaScript chunk's metafile entry", host != nil) {
		return r
	}
	readsFiltered, rangesResolved := false, ""
	eachInstr(host, func(b *ssa.BasicBlock, in ssa.Instruction) {
		switch x := in.(type) {
		case *ssa.FieldAddr:
			if fieldAddrName(x) == "SortedAndFilteredExportAliases" {
				readsFiltered = true
			}
		case *ssa.Range:
			if _, n, ok := loadedField(x.X); ok && n == "ResolvedExports" {
				rangesResolved = p.Pos(x.Pos())
			}
		}
	})
	r.Instances += 2
	if readsFiltered {
		r.OK("generateChunkJS reads SortedAndFilteredExportAliases", true, "the list the export clause is generated from")
	} else {
		r.Fail("generateChunkJS reads SortedAndFilteredExportAliases", p.Pos(host.Pos()), "the metafile writer does not read the filtered alias list the export clause is generated from")
	}
	if rangesResolved == "" {
		r.OK("generateChunkJS does not enumerate ResolvedExports", true, "")
	} else {
		r.Fail("generateChunkJS does not enumerate ResolvedExports", rangesResolved, "the metafile's exports are enumerated from the unfiltered map of resolved exports: names that two `export *` make ambiguous, and re-exports that are probably TypeScript types, are listed although the emitted file does not export them")
	}
	r.Floor(2)
	return r
}

// ---------------------------------------------------------------------------------------------
// C19/R9 substituted-paths-json-escaped.
//
// The metafile text of a chunk is generated before final paths are known: references to other
// chunks are written as unique keys inside JSON strings and replaced by the final path afterwards
// (substituteFinalPaths with a callback that maps a final relative path to the text to insert). The
// key was quoted for JSON; the replacement text is inserted between the same quotes and must be
// escaped for JSON too, or a path containing `"` or `\` makes the metafile unparsable.
func c19SubstitutedPathsEscaped(p *Prog) *RuleResult {
	r := NewRule("C19/R9 substituted-paths-json-escaped", "the text substituted for a chunk's unique key inside the JSON metadata is escaped for JSON")
	n := 0
	for _, fn := range p.ModuleFuncs() {
		if pkgPathOf(fn) != modPath+"/internal/linker" {
			continue
		}
		eachInstr(fn, func(b *ssa.BasicBlock, in ssa.Instruction) {
			c, ok := in.(*ssa.Call)
			if !ok || !strings.HasSuffix(calleeFullName(c), "linkerContext).substituteFinalPaths") {
				return
			}
			for _, a := range c.Call.Args {
				mc, ok := a.(*ssa.MakeClosure)
				if !ok {
					continue
				}
				cb := mc.Fn.(*ssa.Function)
				isMeta := false
				eachInstr(cb, func(b2 *ssa.BasicBlock, in2 ssa.Instruction) {
					if fa, ok := in2.(*ssa.FieldAddr); ok && fieldAddrName(fa) == "MetafilePathStyle" {
						isMeta = true
					}
				})
				if !isMeta {
					continue
				}
				n++
				r.Instances++
				key := fmt.Sprintf("%s metafile path substitution #%d", FuncName(fn), n)
				bad := ""
				for _, cbk := range cb.Blocks {
					if !isReturnBlock(cbk) {
						continue
					}
					ret := cbk.Instrs[len(cbk.Instrs)-1].(*ssa.Return)
					escaped := false
					for _, res := range ret.Results {
						backSlice(res, func(v ssa.Value) bool {
							if call, ok := v.(*ssa.Call); ok && strings.HasSuffix(calleeFullName(call), "helpers.QuoteForJSON") {
								escaped = true
							}
							return true
						})
					}
					if !escaped {
						bad = p.Pos(ret.Pos())
					}
				}
				if bad == "" {
					r.OK(key, true, "every return of the callback derives from helpers.QuoteForJSON")
				} else {
					r.Fail(key, bad, "the final path is inserted into the JSON metadata as it is: a path containing `\"` or `\\` (both legal in directory names) makes the metafile invalid JSON")
				}
			}
		})
	}
	if !r.Anchor("path substitution callbacks for the JSON metadata", n >= 1) {
		return r
	}
	r.Floor(1)
	return r
}

// ---------------------------------------------------------------------------------------------
// C19/R10 inputs-keyed-once.
//
// An output's `inputs` in the metafile is a JSON object keyed by input path; a path written twice is
// a duplicate key and all but one of its byte counts are lost to every JSON parser. One input can
// contribute several pieces to one chunk (a CSS file imported twice under different conditions, a
// JS file split into several parts), so each writer has to group the pieces per input first. Rule:
// the slice that the `"bytesInOutput"` writer ranges over is only ever appended to under a failed
// comma-ok lookup in a map keyed by the same value (the first-occurrence idiom).
func c19InputsKeyedOnce(p *Prog) *RuleResult {
	r := NewRule("C19/R10 inputs-keyed-once", "each writer of an output's per-input byte counts ranges over a list of inputs built with the first-occurrence idiom (append only when a comma-ok lookup keyed by the input misses), so no input path is written twice")
	n := 0
	for _, fn := range p.ModuleFuncs() {
		if pkgPathOf(fn) != modPath+"/internal/linker" || fn.Parent() == nil {
			continue
		}
		var site *ssa.Call
		eachInstr(fn, func(b *ssa.BasicBlock, in ssa.Instruction) {
			c, ok := in.(*ssa.Call)
			if !ok {
				return
			}
			// the call that writes the entry: the format text may be a constant argument or may have
			// been hoisted into a local before the loop
			if !strings.HasSuffix(calleeFullName(c), "helpers.Joiner).AddString") {
				return
			}
			uses := false
			for _, a := range c.Call.Args {
				operandSlice(a, func(v ssa.Value) bool {
					if s, ok := constString(v); ok && strings.Contains(s, "\"bytesInOutput\"") {
						uses = true
					}
					return true
				})
			}
			if uses && (site == nil || blockInLoop(b)) {
				site = c
			}
		})
		if site == nil {
			continue
		}
		n++
		r.Instances++
		key := FuncName(TopFunc(fn)) + " per-input byte counts are written once per input"
		// innermost..outermost loops containing the site; take the outermost loop's ranged free variable
		loops := naturalLoops(fn)
		var header *ssa.BasicBlock
		var body map[*ssa.BasicBlock]bool
		for h, bd := range loops {
			if bd[site.Block()] && (body == nil || len(bd) > len(body)) {
				header, body = h, bd
			}
		}
		if header == nil {
			r.Fail(key, p.Pos(site.Pos()), "the writer is not inside a loop: cannot identify the list of inputs")
			continue
		}
		// the free variable whose length bounds the loop: len(*fv) feeding the header's condition, found
		// in the loop's preheader (range loops evaluate len once before the loop)
		var fv *ssa.FreeVar
		for _, pr := range header.Preds {
			if body[pr] {
				continue
			}
			for _, in := range pr.Instrs {
				if c, ok := in.(*ssa.Call); ok {
					if bi, ok := c.Call.Value.(*ssa.Builtin); ok && bi.Name() == "len" {
						if ld, ok := c.Call.Args[0].(*ssa.UnOp); ok {
							if f, ok := ld.X.(*ssa.FreeVar); ok {
								fv = f
							}
						}
					}
				}
			}
		}
		if fv == nil {
			r.Fail(key, p.Pos(site.Pos()), "the loop around the writer does not range over a captured list: cannot identify the list of inputs")
			continue
		}
		// the captured cell in the parent
		var cell ssa.Value
		parent := fn.Parent()
		eachInstr(parent, func(b *ssa.BasicBlock, in ssa.Instruction) {
			mc, ok := in.(*ssa.MakeClosure)
			if !ok || mc.Fn != ssa.Value(fn) {
				return
			}
			for i, f := range fn.FreeVars {
				if f == fv && i < len(mc.Bindings) {
					cell = mc.Bindings[i]
				}
			}
		})
		if cell == nil {
			r.Fail(key, p.Pos(site.Pos()), "cannot resolve the captured list "+fv.Name())
			continue
		}
		// every append stored into the cell is control dependent on a failed comma-ok lookup
		appends, guarded := 0, 0
		eachInstr(parent, func(b *ssa.BasicBlock, in ssa.Instruction) {
			st, ok := in.(*ssa.Store)
			if !ok || st.Addr != cell {
				return
			}
			c, ok := st.Val.(*ssa.Call)
			if !ok {
				return
			}
			if bi, ok := c.Call.Value.(*ssa.Builtin); !ok || bi.Name() != "append" {
				return
			}
			appends++
			for _, ifi := range controlDepIfsTransitive(b) {
				hit := false
				sliceCond(ifi.Cond, func(v ssa.Value) bool {
					if ex, ok := v.(*ssa.Extract); ok && ex.Index == 1 {
						if lk, ok := ex.Tuple.(*ssa.Lookup); ok && lk.CommaOk {
							hit = true
						}
					}
					return true
				})
				if hit {
					guarded++
					break
				}
			}
		})
		switch {
		case appends == 0:
			r.Fail(key, p.Pos(site.Pos()), "the writer ranges over "+fv.Name()+", which is not built with the first-occurrence idiom (it is not appended to under a comma-ok lookup at all): an input that contributes several pieces to this output is written under the same JSON key several times and all but one of its byte counts are lost")
		case guarded < appends:
			r.Fail(key, p.Pos(site.Pos()), "the list "+fv.Name()+" is appended to without a failed comma-ok lookup keyed by the input: the same input can be listed twice")
		default:
			r.OK(key, true, fmt.Sprintf("ranges over %s, appended to only under a failed comma-ok lookup (%d append site(s))", fv.Name(), appends))
		}
	}
	if !r.Anchor("writers of bytesInOutput in the linker", n >= 2) {
		return r
	}
	r.Floor(2)
	return r
}
