claim("C12", "field-coverage analysis of equality methods (type-checked AST, alias-following)",
      "Decides a necessary structural condition: every semantic field of every css_ast node type is read through both operands by the Equal methods used for rule merging and duplicate removal, pointer fields by content, and hashed fields are a subset of compared fields. Does not decide the cascade itself.",
      "", "DESIGN.md §3 C12")
