package main

import (
	"fmt"
	"go/ast"
	"go/token"
	"go/types"
	"os"
	"sort"
	"strings"

	"golang.org/x/tools/go/ssa"
)

var c09EqExceptions = ExcTable{
	"js_parser.(*Options).Equal js_parser.Options.defines": "documented in the code: the pointer differs per build but the contents never behave differently within one context (a context's options are immutable); Equal asserts the sizes instead",
}

func init() {
	register(&Property{
		ID:          "C09",
		Explanation: "Decides the three conditions of the cache contract in internal/cache/cache.go that 'Go cannot enforce', as shapes of the code (necessary conditions of rebuild == clean build, not the behaviour): R1 the AST cache key (js_parser/css_parser Options.Equal, JSON options ==, source ==) reads every parser option through both operands; R2 no code that runs after a cached AST is returned (bundler, graph, linker, renamer, printers and the helpers they reach) stores into AST-typed memory unless that memory was cloned by CloneLinkerGraph/parseFile (type-path write-set analysis; the clone steps themselves are checked to exist); R3 every file-system observation on build paths goes through internal/fs (whose realFS records watch data); R4 realFS.ReadFile/ReadDirectory/ModKey and DirEntries.Get/SortedKeys record what they observed on every observing path and WatchData covers every watch state; R5 the process-global runtime AST cache depends only on its key. R7 modkey-components: the modification key is built from inode (where available), size, mtime (sec, nsec) and mode, and compared only as a whole. R8 cache-results-immutable: E-GLOB with the results of internal/cache methods as sources. R9 cache-hit-replays-diagnostics: every path to a return of cached entry fields reads the entry's stored messages. R10 range-self-mutation: the C08/R11 analysis. R11 plugin-watch-paths-always-recorded: after every dynamic call returning a struct with AbsWatchFiles/AbsWatchDirs each field is read on every path to a return and to the next callback. R12 unstable-sort-keys: the C08/R3 analysis. NOT covered: timeliness of watch predicates (polling, mod-key granularity), resolver-internal per-build caches, plugin-provided data.",
		Run: func(p *Prog, tier string) []*RuleResult {
			return []*RuleResult{c09CacheKey(p), c09UnconditionalKey(p), c09Frozen(p), c09CloneSteps(p), c09FSLayering(p), c09WatchRecording(p), c09RuntimeCacheKey(p), c09ModKeyComponents(p), cacheResultImmutability(p, "C09/R8 cache-results-immutable"), c09CacheHitReplay(p, "C09/R9 cache-hit-replays-diagnostics"), renamed(c08RangeSelfMutation(p), "C09/R10 range-self-mutation", "source indices are cached by an incremental context, so an element a loop over the scanner's result table adds to that table lies beyond the loop's range on a fresh build and can lie inside it on a rebuild: the rebuild then processes a file the fresh build does not (same analysis as C08/R11)"), c09PluginWatchPaths(p), renamed(c08UnstableKeys(p), "C09/R12 unstable-sort-keys", "source indices are handed out in order of first appearance over the whole life of a build context, so a comparator that orders by a raw source index gives a rebuild a different order (and different collision-renamed names) than a fresh build of the same tree (same analysis as C08/R3)")}
		},
	})
}

func c09CacheKey(p *Prog) *RuleResult {
	r := NewRule("C09/R1 cache-key-coverage", "every parser option is part of the AST cache key: Options.Equal reads every field through both operands; cache hits are guarded by source and options equality")
	ign := &eqIgnore{ignoredTypes: map[string]bool{}, table: c09EqExceptions}
	for _, pkgPath := range []string{modPath + "/internal/js_parser", modPath + "/internal/css_parser"} {
		pk := p.ByPath[pkgPath]
		if !r.Anchor("package "+pkgPath, pk != nil) {
			continue
		}
		found := false
		eachFuncDecl(p, pkgPath, func(_ string, fd *ast.FuncDecl) {
			if fd.Recv == nil || fd.Name.Name != "Equal" {
				return
			}
			a, b, T := findEqOperands(pk, fd)
			if a == nil || b == nil || T == nil || T.Obj().Name() != "Options" {
				return
			}
			found = true
			r.Instances++
			ea := analyseEq(pk, fd, a, b)
			checkEqCoverage(r, p, declName(p, pkgPath, fd), ea, T, ign, p.Pos(fd.Pos()))
		})
		r.Anchor(shortPkg(pkgPath)+".(*Options).Equal", found)
	}
	// cache hit guards: in each (*XCache).Parse, the return of the cached entry is dominated by
	// source equality and options equality
	for _, name := range []string{"cache.(*JSCache).Parse", "cache.(*CSSCache).Parse", "cache.(*JSONCache).Parse"} {
		fn := p.FindFunc(name)
		if !r.Anchor(name, fn != nil) {
			continue
		}
		r.Instances++
		// find loads of the cached result (a field of a cache entry that was not allocated here whose
		// type is the function's first result type); results may be spilled because of the deferred
		// unlock, so the loads are located rather than the return instructions
		checked := 0
		res0 := fn.Signature.Results().At(0).Type()
		eachInstr(fn, func(b *ssa.BasicBlock, in ssa.Instruction) {
			u, ok := in.(*ssa.UnOp)
			if !ok || u.Op != token.MUL || !types.Identical(u.Type(), res0) {
				return
			}
			fa, ok := u.X.(*ssa.FieldAddr)
			if !ok || !strings.HasSuffix(namedTypeName(fa.X.Type()), "CacheEntry") || frzFreshValue(fa.X, 0) {
				return
			}
			checked++
			facts := factsAt(b)
			srcEq, optEq := false, false
			for _, f := range facts {
				if !f.True {
					continue
				}
				switch c := f.Cond.(type) {
				case *ssa.BinOp:
					if c.Op == token.EQL {
						tn := namedTypeName(c.X.Type())
						if tn == "logger.Source" {
							srcEq = true
						}
						if strings.HasSuffix(tn, "Options") {
							optEq = true
						}
					}
				case *ssa.Call:
					if callee := c.Call.StaticCallee(); callee != nil && strings.HasSuffix(FuncName(callee), "(*Options).Equal") {
						optEq = true
					}
				}
			}
			key := name + " cache-hit"
			if srcEq && optEq {
				r.OK(key, true, "cached result read only under entry.source == source ∧ options equality")
			} else {
				r.Fail(key, p.Pos(u.Pos()), "a cached AST is read without being dominated by both the source comparison and the options comparison")
			}
		})
		if checked == 0 {
			r.Fail(name+" cache-hit", p.Pos(fn.Pos()), "no cache-hit read found (rule cannot be decided)")
		}
	}
	r.Floor(5)
	r.StaleCheck(c09EqExceptions)
	return r
}

// ---------------------------------------------------------------------------------------------
// R2 frozen AST

// exceptions keyed "<func> <path>"
var c09FrozenExceptions = ExcTable{
	"linker.mergeAdjacentLocalStmts [].js_ast.Stmt.Data.(js_ast.SLocal).js_ast.SLocal.Decls": "path-sensitive: the append into before.Decls runs only when didMergeWithPreviousLocal is set, i.e. when `before` is the clone this function stored into stmts[end-1] in the previous iteration (the else branch clones first: 'Be careful to not modify the original statement')",
}

func postParseFuncs(p *Prog) ([]*ssa.Function, map[*ssa.Function]*ssa.Function) {
	rootPkgs := map[string]bool{
		modPath + "/internal/linker":      true,
		modPath + "/internal/graph":       true,
		modPath + "/internal/bundler":     true,
		modPath + "/internal/renamer":     true,
		modPath + "/internal/js_printer":  true,
		modPath + "/internal/css_printer": true,
	}
	var roots []*ssa.Function
	for _, fn := range p.ModuleFuncs() {
		if rootPkgs[pkgPathOf(fn)] {
			roots = append(roots, fn)
		}
	}
	stop := func(fn *ssa.Function) bool {
		pp := pkgPathOf(fn)
		if pp == modPath+"/internal/cache" {
			return true
		}
		if !strings.HasPrefix(pp, modPath) {
			return true
		}
		// the JS parser only ever works on the AST it is building (fresh parser state per call)
		if pp == modPath+"/internal/js_parser" || pp == modPath+"/internal/js_lexer" || pp == modPath+"/internal/css_lexer" {
			return true
		}
		// css_parser: the Parse entry builds a fresh AST; the rule manglers the linker calls are analysed
		if pp == modPath+"/internal/css_parser" {
			n := TopFunc(fn).Name()
			if TopFunc(fn).Signature.Recv() == nil && strings.HasPrefix(n, "Parse") {
				return true
			}
			if r := TopFunc(fn).Signature.Recv(); r != nil && namedTypeName(r.Type()) == "css_parser.parser" {
				return true
			}
		}
		return false
	}
	parent := p.reachableFrom(roots, stop)
	var out []*ssa.Function
	for fn := range parent {
		if p.InModule(fn) && fn.Blocks != nil && !stop(fn) {
			out = append(out, fn)
		}
	}
	sort.Slice(out, func(i, j int) bool { return FuncName(out[i]) < FuncName(out[j]) })
	return out, parent
}

// guards of path-sensitive exceptions: a structural check of the invariant the reason relies on
var c09FrozenGuards = map[string]func(p *Prog) string{
	"linker.mergeAdjacentLocalStmts [].js_ast.Stmt.Data.(js_ast.SLocal).js_ast.SLocal.Decls": c09GuardMergeFlag,
}

// c09GuardMergeFlag: in mergeAdjacentLocalStmts the in-place append into the previous statement's
// Decls is guarded by a loop-carried flag meaning "stmts[end-1] is the clone made by this function".
// The invariant holds iff, at the loop header, every incoming edge on which the write index `end`
// advances (a new, uncloned statement becomes stmts[end-1]) resets the flag to the constant false,
// and the flag is only ever set to true in the block that stores a freshly allocated SLocal.
func c09GuardMergeFlag(p *Prog) string {
	fn := p.FindFunc("linker.mergeAdjacentLocalStmts")
	if fn == nil {
		return "linker.mergeAdjacentLocalStmts not found"
	}
	// the in-place append: a store to <SLocal>.Decls whose SLocal is not a fresh Alloc
	var flag *ssa.Phi
	eachInstr(fn, func(b *ssa.BasicBlock, in ssa.Instruction) {
		st, ok := in.(*ssa.Store)
		if !ok {
			return
		}
		fa, ok := st.Addr.(*ssa.FieldAddr)
		if !ok || fieldAddrName(fa) != "Decls" {
			return
		}
		if _, fresh := fa.X.(*ssa.Alloc); fresh {
			return
		}
		// the flag: the bool phi tested on the way into this block
		for _, f := range factsAt(b) {
			if ph, ok := f.Cond.(*ssa.Phi); ok && f.True {
				flag = ph
			}
		}
	})
	if flag == nil {
		return "no loop-carried flag guards the in-place append into the previous statement's Decls"
	}
	header := flag.Block()
	// the write index: an int phi at the same header that some incoming edge advances
	var idx *ssa.Phi
	for _, in := range header.Instrs {
		ph, ok := in.(*ssa.Phi)
		if !ok {
			break
		}
		if ph == flag {
			continue
		}
		advances := false
		for _, e := range ph.Edges {
			if bo, ok := e.(*ssa.BinOp); ok && bo.Op == token.ADD && bo.X == ssa.Value(ph) {
				advances = true
			}
		}
		// ... and that addresses the slot a statement is stored into (stmts[end] = stmt)
		storesAt := false
		if advances && ph.Referrers() != nil {
			for _, rf := range *ph.Referrers() {
				if ia, ok := rf.(*ssa.IndexAddr); ok && ia.Index == ssa.Value(ph) && ia.Referrers() != nil {
					for _, rr := range *ia.Referrers() {
						if st, ok := rr.(*ssa.Store); ok && st.Addr == ssa.Value(ia) {
							storesAt = true
						}
					}
				}
			}
		}
		if advances && storesAt {
			idx = ph
		}
	}
	if idx == nil {
		return "write index not found at the loop header"
	}
	for i, pred := range header.Preds {
		fv := flag.Edges[i]
		advanced := idx.Edges[i] != ssa.Value(idx)
		if _, isInit := idx.Edges[i].(*ssa.Const); isInit {
			advanced = true
		}
		if advanced && !isConstBool(fv, false) {
			return fmt.Sprintf("on the edge from block %d the write index advances (an uncloned statement becomes the previous one) but the flag is not reset to false: the next merge appends into a statement of the shared, cached AST", pred.Index)
		}
		if isConstBool(fv, true) {
			// must be the block that stores a fresh clone
			fresh := false
			for _, in := range pred.Instrs {
				if st, ok := in.(*ssa.Store); ok {
					if mi, ok := st.Val.(*ssa.MakeInterface); ok {
						if _, isAlloc := mi.X.(*ssa.Alloc); isAlloc {
							fresh = true
						}
					}
				}
			}
			if !fresh {
				return fmt.Sprintf("the flag is set in block %d without a freshly allocated statement being stored", pred.Index)
			}
		}
	}
	return ""
}

func c09Frozen(p *Prog) *RuleResult {
	r := NewRule("C09/R2 frozen-ast", "post-parse code stores only into AST memory that was cloned for this build (cached ASTs are immutable and shared between builds and between parallel linkers)")
	fns, parent := postParseFuncs(p)
	if !r.Anchor("post-parse function set", len(fns) > 300) {
		return r
	}
	frzProg = p
	sites := frzCollect(p, fns)
	dump := os.Getenv("VERIF_DUMP") != ""
	seen := map[string]bool{}
	for _, s := range sites {
		key := FuncName(s.fn) + " " + s.path
		if seen[key] {
			continue
		}
		seen[key] = true
		r.Instances++
		if dump {
			println(s.state, key, "@", p.Pos(s.pos), "--", s.why)
		}
		if s.state == "fresh" {
			r.OK(key, true, s.why)
			continue
		}
		if g, ok := c09FrozenGuards[key]; ok {
			if why := g(p); why != "" {
				r.Fail(key, p.Pos(s.pos), "the reviewed reason for this store into shared AST memory no longer holds: "+why)
				continue
			}
		}
		if r.CheckExc(c09FrozenExceptions, key) {
			continue
		}
		r.Fail(key, p.Pos(s.pos), "store into AST-typed memory that is not proven cloned: "+s.why+"; reached via "+chainTo(parent, s.fn))
	}
	r.Floor(30)
	r.StaleCheck(c09FrozenExceptions)
	return r
}

func c09CloneSteps(p *Prog) *RuleResult {
	r := NewRule("C09/R2b clone-steps", "every container the frozen-AST rule treats as cloned is in fact replaced by a fresh copy in CloneLinkerGraph (and the per-build import-record clone exists in parseFile): deleting a clone step turns the dependent post-parse writes into cache corruption")
	frzProg = p
	clg := p.FindFunc("graph.CloneLinkerGraph")
	if !r.Anchor("graph.CloneLinkerGraph", clg != nil) {
		return r
	}
	fns := withClosures(clg)
	if nsm := p.FindFunc("ast.NewSymbolMap"); r.Anchor("ast.NewSymbolMap", nsm != nil) {
		fns = append(fns, withClosures(nsm)...)
	}
	// field stores with fresh values
	freshFieldStores := map[string]string{}
	freshElemStores := map[string]string{}
	reprClones := map[string]string{}
	for _, fn := range fns {
		eachInstr(fn, func(b *ssa.BasicBlock, in ssa.Instruction) {
			st, ok := in.(*ssa.Store)
			if !ok {
				return
			}
			switch a := st.Addr.(type) {
			case *ssa.FieldAddr:
				key := namedTypeName(a.X.Type()) + "." + fieldAddrName(a)
				if frzFreshValue(st.Val, 0) {
					freshFieldStores[key] = p.Pos(st.Pos())
				}
				if key == "graph.InputFile.Repr" {
					if mi, ok := st.Val.(*ssa.MakeInterface); ok {
						if al, ok := mi.X.(*ssa.Alloc); ok && al.Heap {
							reprClones[namedTypeName(al.Type())] = p.Pos(st.Pos())
						}
					}
				}
			case *ssa.IndexAddr:
				steps := addrChain(a)
				for _, s := range steps {
					if s.Kind == "field" {
						if frzFreshValue(st.Val, 0) {
							freshElemStores[s.Owner+"."+s.Name] = p.Pos(st.Pos())
						}
						break
					}
				}
			}
		})
	}
	var keys []string
	for k := range frzClonedContainers {
		keys = append(keys, k)
	}
	sort.Strings(keys)
	for _, k := range keys {
		r.Instances++
		if pos, ok := freshFieldStores[k]; ok {
			r.OK("clone of "+k, true, "fresh value stored at "+pos)
		} else {
			r.Fail("clone of "+k, p.Pos(clg.Pos()), "CloneLinkerGraph no longer stores a freshly allocated copy into "+k+" but post-parse code writes through it")
		}
	}
	r.Instances++
	if pos, ok := freshElemStores["ast.SymbolMap.SymbolsForSource"]; ok {
		r.OK("per-file clone of ast.SymbolMap.SymbolsForSource[i]", true, "fresh symbol array stored at "+pos)
	} else {
		r.Fail("per-file clone of ast.SymbolMap.SymbolsForSource[i]", p.Pos(clg.Pos()), "the per-file symbol array is not a fresh copy (append([]ast.Symbol{}, ...)) but the linker mutates symbols")
	}
	for _, t := range []string{"graph.JSRepr", "graph.CSSRepr"} {
		r.Instances++
		if pos, ok := reprClones[t]; ok {
			r.OK("clone of "+t, true, "copy of the representation stored into InputFile.Repr at "+pos)
		} else {
			r.Fail("clone of "+t, p.Pos(clg.Pos()), "the file representation "+t+" is not copied before the linker mutates it")
		}
	}
	// the bundler's own per-build clone of the import records (they are resolved in place)
	pf := p.FindFunc("bundler.parseFile")
	if r.Anchor("bundler.parseFile", pf != nil) {
		r.Instances++
		found := ""
		for _, fn := range withClosures(pf) {
			eachInstr(fn, func(b *ssa.BasicBlock, in ssa.Instruction) {
				st, ok := in.(*ssa.Store)
				if !ok {
					return
				}
				if c, ok := st.Addr.(*ssa.Call); ok && c.Call.IsInvoke() && c.Call.Method.Name() == "ImportRecords" && frzFreshValue(st.Val, 0) {
					found = p.Pos(st.Pos())
				}
			})
		}
		if found != "" {
			r.OK("bundler.parseFile clones *Repr.ImportRecords()", true, "fresh copy stored through the ImportRecords() pointer at "+found)
		} else {
			r.Fail("bundler.parseFile clones *Repr.ImportRecords()", p.Pos(pf.Pos()), "parseFile no longer replaces the cached import records by a fresh copy before the scanner resolves them in place")
		}
	}
	r.Floor(10)
	return r
}

// file-system observing functions of the standard library
func isFSObserver(n string) bool {
	switch n {
	case "os.Open", "os.OpenFile", "os.ReadFile", "os.Stat", "os.Lstat", "os.ReadDir", "os.Readlink", "os.Getwd",
		"io/ioutil.ReadFile", "io/ioutil.ReadDir", "os.DirFS",
		"path/filepath.EvalSymlinks", "path/filepath.Walk", "path/filepath.WalkDir", "path/filepath.Glob", "path/filepath.Abs",
		"(*os.File).Read", "(*os.File).ReadAt", "(*os.File).Readdir", "(*os.File).Readdirnames", "(*os.File).ReadDir", "(*os.File).Stat", "(*os.File).ReadFrom",
		"syscall.Stat", "syscall.Lstat", "syscall.Open", "syscall.Readlink", "syscall.Getcwd":
		return true
	}
	return false
}

// reviewed observers outside internal/fs that are reachable on build paths: "<caller> <callee>"
var c09FSExceptions = ExcTable{}

func c09FSLayering(p *Prog) *RuleResult {
	r := NewRule("C09/R3 fs-layering", "from bundler.ScanBundle and (*Bundle).Compile no call path reaches a file-system observing function of the standard library except inside internal/fs, so every observation a build makes is made by the FS object whose WatchData() the context keeps")
	scan := p.FindFunc("bundler.ScanBundle")
	compile := p.FindFunc("bundler.(*Bundle).Compile")
	if !r.Anchor("bundler.ScanBundle", scan != nil) || !r.Anchor("bundler.(*Bundle).Compile", compile != nil) {
		return r
	}
	fsPkg := modPath + "/internal/fs"
	stop := func(fn *ssa.Function) bool {
		pp := pkgPathOf(fn)
		return pp == fsPkg || !strings.HasPrefix(pp, modPath)
	}
	parent := p.reachableFrom([]*ssa.Function{scan, compile}, stop)
	nfun := 0
	for fn := range parent {
		if p.InModule(fn) {
			nfun++
		}
	}
	r.Note("functions reachable from ScanBundle/Compile (excluding internal/fs): %d", nfun)
	if !r.Anchor("reachable set is non-trivial", nfun > 800) {
		return r
	}
	// positive control: internal/fs itself must contain observers (else the matcher went blind)
	inFS := 0
	for _, s := range p.sitesOf(isFSObserver) {
		if pkgPathOf(s.Caller) == fsPkg {
			inFS++
			continue
		}
		r.Instances++
		key := FuncName(s.Caller) + " " + s.Callee
		if _, reach := parent[s.Caller]; !reach {
			r.OK(key+" (not on a build path)", false, "")
			continue
		}
		if r.CheckExc(c09FSExceptions, key) {
			continue
		}
		r.Fail(key, p.Pos(s.Instr.Pos()), "file-system observation outside internal/fs on a build path (not recorded in watch data): "+chainTo(parent, s.Caller))
	}
	r.Instances += inFS
	if inFS < 8 {
		r.Fail("C09/R3 positive-control", "-", "fewer than 8 observer call sites found inside internal/fs: the matcher went blind")
	} else {
		r.OK("internal/fs observer sites (positive control)", true, "observer call sites inside internal/fs: counted, all allowed by layer")
	}
	for _, s := range p.funcValueRefs(isFSObserver) {
		if pkgPathOf(s.Caller) != fsPkg {
			if _, reach := parent[s.Caller]; reach {
				r.Fail(FuncName(s.Caller)+" value "+s.Callee, p.Pos(s.Caller.Pos()), "file-system observer used as a function value on a build path")
			}
		}
	}
	r.StaleCheck(c09FSExceptions)
	return r
}

type watchSpec struct {
	fn      string
	observe func(ssa.Instruction) bool
	what    string
	gate    string // field whose nil check guards recording
	record  func(ssa.Instruction) bool
	recWhat string
}

func c09WatchRecording(p *Prog) *RuleResult {
	r := NewRule("C09/R4 watch-recording", "every path from a file-system observation in realFS.ReadFile/ReadDirectory/ModKey and DirEntries.Get/SortedKeys to a return passes the `watch data enabled?` test, and its enabled branch always records the observation; WatchData() turns every recorded state into a change predicate")
	isCallNamed := func(names ...string) func(ssa.Instruction) bool {
		return func(in ssa.Instruction) bool {
			c, ok := in.(ssa.CallInstruction)
			if !ok {
				return false
			}
			n := calleeFullName(c)
			for _, x := range names {
				if n == x {
					return true
				}
			}
			return false
		}
	}
	mapUpdateOn := func(field string) func(ssa.Instruction) bool {
		return func(in ssa.Instruction) bool {
			mu, ok := in.(*ssa.MapUpdate)
			if !ok {
				return false
			}
			_, n, ok := loadedField(mu.Map)
			return ok && n == field
		}
	}
	fsp := modPath + "/internal/fs"
	specs := []watchSpec{
		{"fs.(*realFS).ReadFile", isCallNamed("io/ioutil.ReadFile", "os.ReadFile"), "ioutil.ReadFile", "watchData", mapUpdateOn("watchData"), "fs.watchData[path] = ..."},
		{"fs.(*realFS).ReadDirectory", isCallNamed("(*" + fsp + ".realFS).readdir"), "fs.readdir", "watchData", mapUpdateOn("watchData"), "fs.watchData[dir] = ..."},
		{"fs.(*realFS).ModKey", isCallNamed(fsp + ".modKey"), "modKey", "watchData", mapUpdateOn("watchData"), "fs.watchData[path] = ..."},
		{"fs.(DirEntries).Get", func(in ssa.Instruction) bool {
			l, ok := in.(*ssa.Lookup)
			if !ok {
				return false
			}
			_, n, ok := loadedField(l.X)
			return ok && n == "data"
		}, "entries.data[key]", "accessedEntries", mapUpdateOn("wasPresent"), "accessed.wasPresent[key] = ..."},
		{"fs.(DirEntries).SortedKeys", func(in ssa.Instruction) bool {
			rg, ok := in.(*ssa.Range)
			if !ok {
				return false
			}
			_, n, ok := loadedField(rg.X)
			return ok && n == "data"
		}, "range entries.data", "accessedEntries", func(in ssa.Instruction) bool {
			st, ok := in.(*ssa.Store)
			if !ok {
				return false
			}
			fa, ok := st.Addr.(*ssa.FieldAddr)
			return ok && fieldAddrName(fa) == "allEntries"
		}, "accessedEntries.allEntries = keys"},
	}
	for _, sp := range specs {
		fn := p.FindFunc(sp.fn)
		if !r.Anchor(sp.fn, fn != nil) {
			continue
		}
		r.Instances++
		// locate observation sites, gate blocks, record blocks
		var obs []ssa.Instruction
		gateTrue := map[*ssa.BasicBlock]*ssa.BasicBlock{} // gate block -> successor where recording is enabled
		recordBlocks := map[*ssa.BasicBlock]bool{}
		eachInstr(fn, func(b *ssa.BasicBlock, in ssa.Instruction) {
			if sp.observe(in) {
				obs = append(obs, in)
			}
			if ifi, ok := in.(*ssa.If); ok {
				if nonNilOnTrue, ok := nilCheckOfField(ifi.Cond, sp.gate); ok {
					if nonNilOnTrue {
						gateTrue[b] = b.Succs[0]
					} else {
						gateTrue[b] = b.Succs[1]
					}
				}
			}
			if sp.record(in) {
				recordBlocks[b] = true
			}
		})
		if len(obs) == 0 {
			r.Fail(sp.fn+" observation "+sp.what, p.Pos(fn.Pos()), "observation site not found (rule cannot be decided)")
			continue
		}
		if len(gateTrue) == 0 {
			r.Fail(sp.fn+" gate "+sp.gate, p.Pos(fn.Pos()), "no `"+sp.gate+" != nil` test found: observations are not recorded for watch mode")
			continue
		}
		for _, o := range obs {
			key := sp.fn + " " + sp.what + " → gate"
			ob := o.Block()
			startSafe := true
			if _, isGate := gateTrue[ob]; isGate {
				// gate is the block terminator, after the observation: path passes it
				r.OK(key, true, "gate terminates the observing block")
				continue
			}
			path, bad := reachesExitAvoiding(ob, isReturnBlock, func(b *ssa.BasicBlock) bool { _, g := gateTrue[b]; return g }, startSafe)
			if bad {
				r.Fail(key, p.Pos(o.Pos()), "a path from the observation "+sp.what+" reaches a return without testing "+sp.gate+" (blocks "+blockPath(path)+"): the observation is not recorded for watch mode")
			} else {
				r.OK(key, true, "every path from "+sp.what+" to a return passes the `"+sp.gate+" != nil` test")
			}
		}
		for g, succ := range gateTrue {
			key := sp.fn + " gate → " + sp.recWhat
			path, bad := reachesExitAvoiding(succ, isReturnBlock, func(b *ssa.BasicBlock) bool { return recordBlocks[b] }, false)
			if bad {
				r.Fail(key, p.Pos(g.Instrs[len(g.Instrs)-1].Pos()), "with watch data enabled a path reaches a return without recording ("+sp.recWhat+"), blocks "+blockPath(path))
			} else {
				r.OK(key, true, "with watch data enabled every path records: "+sp.recWhat)
			}
		}
	}
	// WatchData covers every watch state
	wd := p.FindFunc("fs.(*realFS).WatchData")
	pk := p.ByPath[fsp]
	if r.Anchor("fs.(*realFS).WatchData", wd != nil && pk != nil) {
		consts := constsOfType(pk.Types, "watchState")
		r.Anchor("fs.watchState constants", len(consts) >= 6)
		compared := map[int64]*ssa.BasicBlock{}
		eachInstr(wd, func(b *ssa.BasicBlock, in ssa.Instruction) {
			ifi, ok := in.(*ssa.If)
			if !ok {
				return
			}
			if bo, ok := ifi.Cond.(*ssa.BinOp); ok && bo.Op == token.EQL && namedTypeName(bo.X.Type()) == "fs.watchState" {
				if v, ok := constInt(bo.Y); ok {
					compared[v] = b.Succs[0]
				} else if v, ok := constInt(bo.X); ok {
					compared[v] = b.Succs[0]
				}
			}
		})
		var names []string
		for n := range consts {
			names = append(names, n)
		}
		sort.Strings(names)
		for _, n := range names {
			if n == "stateNone" {
				continue
			}
			r.Instances++
			key := "fs.(*realFS).WatchData case " + n
			succ, ok := compared[consts[n]]
			if !ok {
				r.Fail(key, p.Pos(wd.Pos()), "watch state "+n+" is recorded by the FS but WatchData() has no case for it: edits to such paths are never detected")
				continue
			}
			if n == "stateFileNeedModKey" {
				r.OK(key, true, "state is rewritten into a final state before the switch")
				continue
			}
			if blockHas(succ, func(in ssa.Instruction) bool { _, ok := in.(*ssa.MapUpdate); return ok }) {
				r.OK(key, true, "case installs a change predicate into the result map")
			} else {
				r.Fail(key, p.Pos(wd.Pos()), "case for "+n+" does not install a change predicate")
			}
		}
	}
	r.Floor(10)
	return r
}

func blockPath(bs []*ssa.BasicBlock) string {
	s := ""
	for i, b := range bs {
		if i > 0 {
			s += "→"
		}
		s += b.String()
	}
	return s
}

func c09RuntimeCacheKey(p *Prog) *RuleResult {
	r := NewRule("C09/R5 runtime-cache-key", "the process-global runtime AST cache entry depends only on its key: every option passed to the parser and the argument of runtime.Source come from the key struct or are constants")
	fn := p.FindFunc("bundler.(*runtimeCache).parseRuntime")
	if !r.Anchor("bundler.(*runtimeCache).parseRuntime", fn != nil) {
		return r
	}
	var keyAlloc, optAlloc *ssa.Alloc
	eachInstr(fn, func(b *ssa.BasicBlock, in ssa.Instruction) {
		if al, ok := in.(*ssa.Alloc); ok {
			switch namedTypeName(al.Type()) {
			case "bundler.runtimeCacheKey":
				keyAlloc = al
			case "config.Options":
				optAlloc = al
			}
		}
	})
	if !r.Anchor("runtimeCacheKey local", keyAlloc != nil) || !r.Anchor("config.Options literal", optAlloc != nil) {
		return r
	}
	fromKey := func(v ssa.Value) (string, bool) {
		switch x := v.(type) {
		case *ssa.Const:
			return "constant", true
		case *ssa.UnOp:
			if fa, ok := x.X.(*ssa.FieldAddr); ok && fa.X == keyAlloc {
				return "key." + fieldAddrName(fa), true
			}
		}
		return "", false
	}
	eachInstr(fn, func(b *ssa.BasicBlock, in ssa.Instruction) {
		switch x := in.(type) {
		case *ssa.Store:
			if fa, ok := x.Addr.(*ssa.FieldAddr); ok && fa.X == optAlloc {
				r.Instances++
				key := "parseRuntime config.Options." + fieldAddrName(fa)
				if w, ok := fromKey(x.Val); ok {
					r.OK(key, true, "set from "+w)
				} else {
					r.Fail(key, p.Pos(x.Pos()), "parser option of the globally cached runtime AST is set from a value that is not part of the cache key")
				}
			}
		case *ssa.Call:
			if calleeFullName(x) == modPath+"/internal/runtime.Source" {
				r.Instances++
				if w, ok := fromKey(x.Call.Args[0]); ok {
					r.OK("parseRuntime runtime.Source argument", true, "from "+w)
				} else {
					r.Fail("parseRuntime runtime.Source argument", p.Pos(x.Pos()), "runtime source is selected by a value that is not part of the cache key")
				}
			}
			if calleeFullName(x) == modPath+"/internal/js_parser.OptionsFromConfig" {
				r.Instances++
				if x.Call.Args[0] == optAlloc {
					r.OK("parseRuntime OptionsFromConfig argument", true, "the key-only options literal")
				} else {
					r.Fail("parseRuntime OptionsFromConfig argument", p.Pos(x.Pos()), "parser options are not the key-only literal")
				}
			}
		}
	})
	r.Floor(5)
	return r
}
